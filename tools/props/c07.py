"""C07 - per-test leak verdict of MemoryLeakWarningPlugin: leaking tests fail, clean ones pass, blame is correct (LeakPlugin.tla)."""
import json
from vlib.conform import conform
from vlib.core import Infra

MC = """SPECIFICATION Spec
CONSTANTS
  MaxTests = %(tests)d
  MaxBlocks = %(blocks)d
  MaxOps = %(ops)d
  Expectations = {%(exp)s}
INVARIANTS TypeOK Refines UniqueIds VerdictExact ReportListsExactlyOwn NeverChargedToLaterTest FailedTestGetsNoLeakFailure HistShape
CHECK_DEADLOCK FALSE
"""
GEN = """SPECIFICATION GSpec
CONSTANTS
  MaxTests = %(tests)d
  MaxBlocks = %(blocks)d
  MaxOps = %(ops)d
  Expectations = {%(exp)s}
  D = %(D)d
  Buckets = {%(buckets)s}
  Fams = {%(fams)s}
  Keeps = {%(keeps)s}
INVARIANTS Dump
CHECK_DEADLOCK FALSE
"""
TRACE = """SPECIFICATION %(spec)s
CONSTANTS
  MaxTests = 0
  MaxBlocks = 0
  MaxOps = 0
  Expectations = {}
%(tail)s
CHECK_DEADLOCK FALSE
"""


def beh_to_exec(h):
    return [[st["op"], st["ph"], st["arg"], st["arg2"], st["bk"], st["fam"]] for st in h]


def chain_shapes(ex):
    """Measured from a program (mirrors only the script's own placement choices): does a test end while one of its blocks
    shares a designated bucket with a block that does not belong to it - counted separately for a foreign block placed
    there EARLIER (older in the chain) and LATER (a re-inserted or reporting-time record in front of the test's block)."""
    where, owner, order, cur, n = {}, {}, {}, 0, 0
    older = newer = False
    tno = 0
    for l in ex:
        op, ph, arg, arg2, bk = l[0], l[1], int(l[2]), int(l[3]), int(l[4])
        n += 1
        if op == "begin":
            tno += 1; cur = tno
        elif op == "alloc":
            where[arg], owner[arg], order[arg] = bk, cur, n
        elif op == "realloc":
            where[arg2], owner[arg2], order[arg2] = bk, cur, n
            where.pop(arg, None)
        elif op == "rfail" and arg in where:
            order[arg] = n                      # the record goes back to the head of its chain
        elif op == "free":
            where.pop(arg, None)
        elif op == "end":
            if arg:
                where[arg], owner[arg], order[arg] = bk, 0, n
            for i, b in where.items():
                if b and owner.get(i) == cur:
                    for j, c in where.items():
                        if c == b and owner.get(j) != cur:
                            if order[j] < order[i]:
                                older = True
                            else:
                                newer = True
            cur = 0
    return older, newer


def random_program(rng, ntests):
    """Seeded random run: allocations, releases and re-allocations (moving and failing) in all three phases and between
    tests (also before the first test), releases of earlier tests' blocks, expected counts (right and wrong), ignore flags,
    own failures anywhere, an output that keeps copies of leak failures.  Most blocks are placed in one of a few designated
    buckets of the detector's table, so that every test's blocks share chains with older outstanding blocks.  Mirrors the
    enabling conditions only (copies kept by the output are never referred to again)."""
    ex, live, nid = [], [], 1
    mal = set()
    mine = []
    nb = rng.choice([1, 2, 3, 6])

    def bucket():
        return 0 if rng.random() < 0.15 else rng.randrange(1, nb + 1)

    def alloc(ph):
        nonlocal nid
        fam = 1 if rng.random() < 0.5 else 0
        ex.append(["alloc", ph, nid, 0, bucket(), fam])
        if fam:
            mal.add(nid)
        nid += 1
        return nid - 1
    for t in range(ntests):
        for _ in range(rng.choice([0, 0, 1, 2, 3]) if t else rng.choice([0, 2, 4])):          # between tests / before the first
            r = rng.random()
            if live and r < 0.35:
                i = rng.choice(live); live.remove(i); ex.append(["free", "o", i, 0, 0, 0])
            elif r < 0.45 and [i for i in live if i in mal]:
                i = rng.choice([i for i in live if i in mal])
                ex.append(["rfail", "o", i, 0, 0, 1])
            else:
                live.append(alloc("o"))
        ex.append(["begin", "o", 0, 0, 0, 0])
        aborted, mine = set(), []
        style = rng.random()
        for ph in "sbt":
            for _ in range(rng.choice([0, 1, 1, 2, 3, 4]) if ph == "b" else rng.choice([0, 0, 1, 2])):
                runs = ph not in aborted and not (ph == "b" and "s" in aborted)
                r = rng.random()
                rl = [i for i in live if i in mal]
                if r < 0.34 and len(mine) < 7:
                    i = alloc(ph)
                    if runs:
                        live.append(i); mine.append(i)
                elif r < 0.58 and live:
                    # own blocks preferably, earlier tests' blocks often
                    pool = mine if (mine and rng.random() < 0.6) else live
                    i = rng.choice(pool)
                    ex.append(["free", ph, i, 0, 0, 0])
                    if runs:
                        live.remove(i)
                        if i in mine:
                            mine.remove(i)
                elif r < 0.68 and rl:
                    # out of memory while growing a block - an older one as a rule: its record moves to the head of its chain
                    old = [i for i in rl if i not in mine]
                    i = rng.choice(old if old and rng.random() < 0.8 else rl)
                    ex.append(["rfail", ph, i, 0, 0, 1])
                elif r < 0.74 and rl and (len(mine) < 7):
                    i = rng.choice(rl)
                    ex.append(["realloc", ph, i, nid, bucket(), 1])
                    mal.add(nid)
                    if runs:
                        live.remove(i)
                        if i in mine:
                            mine.remove(i)
                        live.append(nid); mine.append(nid)
                    nid += 1
                elif r < 0.84:
                    n = len(mine) if rng.random() < 0.5 else rng.choice([0, 1, 2, 3])
                    ex.append(["expect", ph, n, 0, 0, 0])
                elif r < 0.89:
                    ex.append(["ignore", ph, 0, 0, 0, 0])
                elif r < 0.95 and style < 0.35:
                    ex.append(["fail", ph, 0, 0, 0, 0])
                    if runs:
                        aborted.add(ph)
        if rng.random() < 0.4:
            ex.append(["end", "o", nid, 1 if rng.random() < 0.12 else 0, bucket(), 0])       # the output keeps a copy of a leak failure (if there is one)
            nid += 1
        else:
            ex.append(["end", "o", 0, 1 if rng.random() < 0.12 else 0, 0, 0])     # arg2: another plugin reports a failure before the leak verdict
    ex.append(["final", "o", 0, 0, 0, 0])
    return ex


def long_program(rng, ntests, sparse=False):
    """Seeded LONG run (hundreds to tens of thousands of tests; the property speaks of runs of every length).  The point is AGE:
    blocks that tests leave behind (expected leaks, ignored leaks, leaks that were reported, leaks of tests that failed on their
    own), blocks allocated before the first test and between tests, and copies of leak failures kept by the output stay
    outstanding while hundreds or thousands of clean and leaking tests follow; some are released by a much later test (or
    between two much later tests), some never.  Tests are short (0-6 operations, so that the log stays compact) and of every
    kind: empty, clean, leaking, declaring (right and wrong), ignoring, failing, releasing blocks of (much) earlier tests with
    and without a leak of their own, growing an old block without success.  `held' blocks are meant to stay (each test that
    releases foreign blocks picks one of them with a small probability only, `pinned' ones are never released), `loose' ones
    are released by one of the next tests, so the number of outstanding blocks stays bounded however long the run is.
    sparse: most tests are empty or clean (for the longest runs).  Returns (program, ages): the largest number of tests that
    ended while one and the same block was outstanding, for blocks allocated by a test ("test") and for the others ("other":
    allocated between tests, copies kept by the output) - measured from the script."""
    ex, nid = [], 1
    mal, born, bytest = set(), {}, set()
    held, loose, pinned = [], [], set()
    nb = rng.choice([1, 2, 3, 6])
    ages = {"test": 0, "other": 0}
    kinds = ["empty", "clean", "leak", "expected", "wrong", "ignore", "fail", "release", "release+leak", "rfail"]
    base = [30, 40, 4, 3, 2, 2, 2, 6, 3, 2] if sparse else [4, 10, 6, 5, 3, 3, 3, 8, 5, 2]
    weights = [w * rng.choice([1, 1, 2]) for w in base]
    early = rng.randrange(2, 16)          # the first tests leave most of what they allocate to the rest of the run

    def bucket():
        return 0 if rng.random() < 0.15 else rng.randrange(1, nb + 1)

    def alloc(ph, t):
        nonlocal nid
        fam = 1 if rng.random() < 0.5 else 0
        ex.append(["alloc", ph, nid, 0, bucket(), fam])
        if fam:
            mal.add(nid)
        born[nid] = t
        if ph != "o":
            bytest.add(nid)
        nid += 1
        return nid - 1

    def seen(i, t):
        k = "test" if i in bytest else "other"
        ages[k] = max(ages[k], t - born[i])

    def leave(ids, t):
        for i in ids:
            first = i in bytest and not (pinned & bytest)      # the first block a test leaves stays to the end of the run
            if first or (len(held) < 16 and rng.random() < (0.7 if t <= early else 0.08)):
                held.append(i)
                if first or (rng.random() < 0.4 and len(pinned) < 8):
                    pinned.add(i)
            else:
                loose.append(i)

    def pick_foreign():
        """a block of an earlier test / of the time between tests: a loose one as a rule, a held one now and then"""
        cand = [i for i in held if i not in pinned]
        if cand and (not loose or rng.random() < 0.15):
            i = rng.choice(cand); held.remove(i)
            return i
        if loose:
            i = loose.pop(rng.randrange(len(loose)))
            return i
        return None

    def phases(n):
        return sorted((rng.choice("sbbbt") for _ in range(n)), key="sbt".index)

    for t in range(1, ntests + 1):
        # between tests (before the first one too)
        r = rng.random()
        if r < (0.6 if t == 1 else 0.06):
            for _ in range(rng.choice([1, 2, 3]) if t == 1 else 1):
                leave([alloc("o", t - 1)], t)
        elif r < 0.16 or len(loose) > 12:
            i = pick_foreign()
            if i is not None:
                seen(i, t - 1); ex.append(["free", "o", i, 0, 0, 0])
        ex.append(["begin", "o", 0, 0, 0, 0])
        kind = rng.choices(kinds, weights)[0]
        if len(loose) > 8 and rng.random() < 0.5:
            kind = "release"
        if t <= early and rng.random() < 0.7:
            kind = rng.choice(["leak", "expected", "expected", "ignore", "fail", "wrong"])
        ops = []           # (op, arg) in program order; phases are dealt out afterwards
        reported = False   # the test gets a leak failure by construction (the output may then keep a copy of it)
        k = rng.choice([1, 1, 1, 2, 3])
        if kind == "clean":
            ops = [("alloc", None)] * k + [("freeown", None)] * k
        elif kind in ("leak", "release+leak"):
            ops = [("alloc", None)] * k
            reported = True
            if kind == "release+leak":       # releasing an earlier test's block does not offset the new leak
                ops.insert(rng.randrange(len(ops) + 1), ("freeold", None))
        elif kind == "expected":
            ops = [("alloc", None)] * k
            ops.insert(rng.randrange(len(ops) + 1), ("expect", k))
        elif kind == "wrong":
            n = rng.choice([x for x in (0, 1, 2, 3, 4) if x != k])
            ops = [("alloc", None)] * k
            ops.insert(rng.randrange(len(ops) + 1), ("expect", n))
            reported = True
        elif kind == "ignore":
            ops = [("alloc", None)] * k
            ops.insert(rng.randrange(len(ops) + 1), ("ignore", 0))
        elif kind == "fail":
            ops = [("alloc", None)] * k + [("fail", 0)]      # the failing check is the last step of the test: everything before it runs
        elif kind == "release":
            ops = [("freeold", None)] * rng.choice([1, 1, 2])
            if rng.random() < 0.4:
                ops += [("alloc", None), ("freeown", None)]
        elif kind == "rfail":
            ops = [("rfail", None)]
        own = []
        for (op, arg), ph in zip(ops, phases(len(ops))):
            if op == "alloc":
                own.append(alloc(ph, t))
            elif op == "freeown":
                ex.append(["free", ph, own.pop(rng.randrange(len(own))), 0, 0, 0])
            elif op == "freeold":
                i = pick_foreign()
                if i is not None:
                    seen(i, t - 1); ex.append(["free", ph, i, 0, 0, 0])
            elif op == "rfail":
                cand = [i for i in held + loose if i in mal]
                if cand:
                    ex.append(["rfail", ph, rng.choice(cand), 0, 0, 1])
            else:
                ex.append([op, ph, arg, 0, 0, 0])
        pf = 1 if rng.random() < 0.03 else 0          # another plugin reports a failure before the leak verdict
        if rng.random() < 0.1:
            ex.append(["end", "o", nid, pf, bucket(), 0])          # the output keeps a copy of the leak failure (if there is one)
            if reported and not pf:
                born[nid] = t
                leave([nid], t)
            nid += 1
        else:
            ex.append(["end", "o", 0, pf, 0, 0])
        leave(own, t)
    for i in held + loose:
        seen(i, ntests)
    ex.append(["final", "o", 0, 0, 0, 0])
    return ex, ages


def nontrivial(e):
    return any(l[0] in ("free", "realloc", "rfail", "expect", "ignore", "fail") for l in e) and any(l[0] == "alloc" for l in e)


def key_fn(kind, ex, idx, observed):
    if idx >= len(ex):
        return kind + ":?"
    l = ex[idx]
    k = "%s:%s" % (kind, l[0])
    if l[0] in ("alloc", "free", "realloc", "rfail", "expect", "ignore", "fail"):
        k += ":phase=" + str(l[1])
    if observed and l[0] == "end":
        k += ":leakfail=%s:own=%s" % (observed.get("leakfail"), min(int(observed.get("own", 0)), 1))
    return k


def run(ctx):
    quick = ctx.quick
    exe = ctx.build_harness("leakplugin", "asan")
    run_h = lambda s, l: ctx.run([exe, s, l], timeout=900)
    tcfg = ctx.write_cfg("Trace_LeakPlugin", TRACE % {"spec": "TSpec", "tail": "INVARIANT TInv\nPOSTCONDITION Accepted"})
    pcfg = ctx.write_cfg("Predict_LeakPlugin", TRACE % {"spec": "PSpec", "tail": "INVARIANT Predict"})
    if ctx.replay:
        rp = json.load(open(ctx.replay))
        ex = [(l.split("\t") + ["0", "0", "0"])[:6] for l in rp["script"]]
        conform(ctx, "replay", [ex], run_h, "Trace_LeakPlugin", tcfg, pcfg, key_fn)
        return ctx.finish("replay of one recorded execution", 1)

    # ---- leg 1: the specification satisfies the clauses of the property (exhaustive, small constants)
    m = {"tests": 2, "blocks": 3, "ops": 3, "exp": "1"} if quick else {"tests": 3, "blocks": 4, "ops": 3, "exp": "1"}
    r = ctx.model_check("LeakPlugin", ctx.write_cfg("MC_LeakPlugin", MC % m), workers=8, timeout=1500, heap="12g")
    ctx.notes["model"] = {"distinct_states": r.distinct, "depth": r.depth,
                          "constants": "%(tests)d tests, %(blocks)d blocks, %(ops)d operations per test in any phase, expected in {0 (default), %(exp)s}" % m}

    distinct = set()
    shapes = {"older": 0, "newer": 0}
    # ---- leg 2: programs generated by TLC from the specification, run through the real registry / plugin / detector
    gens = [("bfs", {"tests": 2, "blocks": 2, "ops": 2 if quick else 3, "exp": "1", "D": 5 if quick else 7,
                     "buckets": "1", "fams": "1", "keeps": "FALSE, TRUE"}, None, None),
            ("sim", {"tests": 12, "blocks": 40, "ops": 6, "exp": "0, 1, 2", "D": 60,
                     "buckets": "0, 1, 2", "fams": "0, 1", "keeps": "FALSE, TRUE"}, 60 if quick else 1500, 80)]
    for (lab, g, sim, depth) in gens:
        gr = ctx.tlc("Gen_LeakPlugin", ctx.write_cfg("Gen_LeakPlugin_" + lab, GEN % g), workers=8, simulate=sim, depth=depth, timeout=1800, heap="8g")
        execs = [beh_to_exec(h) for h in gr.beh]
        if not execs:
            raise Infra("no behaviours generated by " + lab)
        ctx.sample({"source": "TLC " + lab, "program": ["\t".join(map(str, l)) for l in execs[ctx.rng.randrange(len(execs))]][:16]})
        for i in range(0, len(execs), 10000):
            conform(ctx, "%s%d" % (lab, i // 10000), execs[i:i + 10000], run_h, "Trace_LeakPlugin", tcfg, pcfg, key_fn, tlc_timeout=1800)
        ctx.evaluations += sum(len(e) for e in execs)
        distinct.update(json.dumps(e) for e in execs if nontrivial(e))
        for e in execs:
            o, n = chain_shapes(e)
            shapes["older"] += o; shapes["newer"] += n

    # ---- leg 3: seeded random runs of 20-200 tests, validated against the specification
    nprog = 12 if quick else 300
    progs = [random_program(ctx.rng, ctx.rng.randrange(20, 201)) for _ in range(nprog)]
    ctx.sample({"source": "seeded random driver", "program": ["\t".join(map(str, l)) for l in progs[0][:16]]})
    conform(ctx, "random", progs, run_h, "Trace_LeakPlugin", tcfg, pcfg, key_fn, tlc_timeout=1800)
    ctx.evaluations += sum(len(e) for e in progs)
    distinct.update(json.dumps(e[:60]) for e in progs)
    for e in progs:
        o, n = chain_shapes(e)
        shapes["older"] += o; shapes["newer"] += n
    # ---- leg 4: seeded LONG runs: blocks left by early tests stay outstanding while hundreds / thousands of tests follow.
    # Lengths on both sides of the run lengths at which narrow counters and stamps start again (2^8 tests; thorough: 2^16 too).
    sizes = [ctx.rng.randrange(300, 900) for _ in range(2 if quick else 8)]
    if not quick:
        sizes += [ctx.rng.randrange(2000, 6000) for _ in range(4)] + [ctx.rng.randrange(66000, 72000)]
    longs = [long_program(ctx.rng, n, sparse=n > 10000) for n in sizes]
    for n, (e, ages) in zip(sizes, longs):
        if ages["test"] < n // 2:
            raise Infra("the long-run driver no longer keeps a block allocated by a test outstanding for half of a run: %s of %d tests" % (ages, n))
    ctx.sample({"source": "seeded long-run driver (%d tests)" % sizes[0], "program": ["\t".join(map(str, l)) for l in longs[0][0][:24]]})
    conform(ctx, "long", [e for e, _ in longs], run_h, "Trace_LeakPlugin", tcfg, pcfg, key_fn, tlc_timeout=1800)
    ctx.evaluations += sum(len(e) for e, _ in longs)
    distinct.update(json.dumps(e[:60]) for e, _ in longs)
    ctx.notes["long_runs"] = {"tests_per_run": sizes,
                              "most_tests_that_ended_while_one_block_allocated_by_a_test_stayed_outstanding": max(a["test"] for _, a in longs),
                              "same_for_blocks_allocated_between_tests_or_kept_by_the_output": max(a["other"] for _, a in longs)}
    ctx.notes["programs_where_a_test_ends_with_a_foreign_record_in_the_chain_of_one_of_its_blocks"] = \
        {"behind_it (older record)": shapes["older"], "in_front_of_it (re-inserted / reporting-time record)": shapes["newer"]}
    if not shapes["older"] or not shapes["newer"]:
        raise Infra("the generated programs no longer put foreign records behind and in front of a test's blocks in a shared chain: %s" % shapes)
    return ctx.finish(
        rule="executions = TLC-generated programs of LeakPlugin (exhaustive to depth D over 2 tests; simulation to 60 steps over up to 12 tests) "
             "+ seeded random runs of 20-200 tests + seeded long runs (300-900 tests; thorough: also 2000-6000 and one of about 70 000) in which "
             "blocks left by early tests, allocated between tests or kept by the output stay outstanding while the rest of the run goes on, "
             "each run through the real TestRegistry/UtestShell/Utest lifecycle with the real "
             "MemoryLeakWarningPlugin and detector and the real global operator new[] / malloc / realloc / free, over arena allocators that put "
             "each block into the hash bucket the program chose; distinct = distinct programs (placements included); non-trivial = allocates "
             "and also releases, re-allocates, declares, ignores or fails",
        distinct_nontrivial=len(distinct), exhaustive=False,
        assumptions=["blocks are identified in reports by their allocation number (read from the detector just before each scripted allocation)",
                     "a test's own failure is FAIL() (leaves the phase; a failing setup skips the body; teardown runs)",
                     "while a test runs, its Utest object is one more tracked block (allowed for in the counts observed during the test)",
                     "the final report is read from the last report header on (the detector appends to its message buffer)",
                     "tests keep at most 7 of their blocks outstanding so that leak reports are not truncated",
                     "placement: the library's current new[] / malloc allocators and PlatformSpecificRealloc are replaced by arena versions that return "
                     "an address of the designated bucket (address % 73) the script names, or the real malloc's address (bucket 0 of the script)",
                     "a moving realloc yields a block allocated by whoever re-allocated it (old block released); a failing realloc (out of memory) "
                     "changes nothing; only malloc-family blocks are re-allocated",
                     "an output that keeps a tracked copy of a leak failure allocates it while the failure is reported: the copy belongs to no test",
                     "long runs: the harness's own test output drops progress text (no part of the projection); the trace walk keeps the ghost "
                     "record of the last finished test and the set of outstanding blocks left by the tests before it, not the whole history"])
