"""C09 - mock parameter values compare by mathematical value, symmetrically; getters return the stored
integer or fail the test (MockValue.tla)."""
import json
from vlib.conform import conform
from vlib.core import Infra

MC = """SPECIFICATION Spec
INVARIANTS TypeOK EqualIffSameInteger Symmetric DifferentTypesNeverEqual NanEqualsNothing ExpectationTolerance Reflexive
           GetterNeverLies ConvIdentityInRange ConvAlwaysInRange EqDesignRefines GetterDesignRefines Transitive
CHECK_DEADLOCK FALSE
"""
MCNEG = """SPECIFICATION Spec
INVARIANTS GetterUnguardedRefines
CHECK_DEADLOCK FALSE
"""
GEN = """SPECIFICATION GSpec
INVARIANTS Dump
CHECK_DEADLOCK FALSE
"""
TRACE = """SPECIFICATION TSpec
INVARIANT TInv
POSTCONDITION Accepted
CHECK_DEADLOCK FALSE
"""
PREDICT = """SPECIFICATION PSpec
INVARIANT Predict
CHECK_DEADLOCK FALSE
"""

CODE = {"int": "int", "unsigned int": "uint", "long int": "long", "unsigned long int": "ulong",
        "long long int": "llong", "unsigned long long int": "ullong"}
NAME = {v: k for k, v in CODE.items()}
BITS = {"int": 32, "uint": 32, "long": 64, "ulong": 64, "llong": 64, "ullong": 64}
SIGNED = {"int", "long", "llong"}
PTR = {"void*": "v", "const void*": "c", "void (*)()": "f"}


def enc_int(code, value):
    neg = value < 0
    mag = -value if neg else value
    return "I|%s|%d|%d|%d|%d|%d" % (code, 1 if neg else 0, (mag >> 48) & 0xffff, (mag >> 32) & 0xffff, (mag >> 16) & 0xffff, mag & 0xffff)


def enc_x(x):
    return "%s|%d|%d" % (x["k"], 1 if x["neg"] else 0, x["q"])


def enc(v):
    """value record of the specification -> script encoding"""
    t = v["t"]
    if t in CODE:
        m = v["m"]
        mag = (m[0] << 48) | (m[1] << 32) | (m[2] << 16) | m[3]
        return enc_int(CODE[t], -mag if v["neg"] else mag)
    if t == "bool":
        return "B|%d" % (1 if v["b"] else 0)
    if t in PTR:
        return "P|%s|%d" % (PTR[t], v["id"])
    if t == "const char*":
        return "S|" + v["s"].encode().hex()
    if t == "const unsigned char*":
        return "M|" + bytes(v["bytes"]).hex()
    if t == "double":
        return "D|%s|%s" % (enc_x(v["v"]), enc_x(v["tol"]))
    if t == "obj":
        return "O|%s|%d" % (v["tn"], v["c"])
    raise Infra("unknown value record %r" % (v,))


def region(e):
    """a label for the class of an encoded value (used in divergence keys only)"""
    f = e.split("|")
    if f[0] == "I":
        mag = (int(f[3]) << 48) | (int(f[4]) << 32) | (int(f[5]) << 16) | int(f[6])
        if f[2] == "1":
            return "<-2^31" if mag > 2 ** 31 else "[-2^31,0)"
        for lim, lab in ((1, "0"), (2 ** 31, "(0,2^31)"), (2 ** 32, "[2^31,2^32)"), (2 ** 63, "[2^32,2^63)")):
            if mag < lim:
                return lab
        return "[2^63,2^64)"
    if f[0] == "D":
        return {"nan": "nan", "inf": "-inf" if f[2] == "1" else "+inf", "fin": "fin"}[f[1]]
    return "*"


def tname(e):
    f = e.split("|")
    if f[0] == "I":
        return NAME[f[1]]
    return {"B": "bool", "P": "ptr-" + f[1], "S": "string", "M": "memory", "D": "double", "O": "object"}[f[0]]


def key_fn(kind, ex, idx, observed):
    if idx >= len(ex):
        return kind
    ln = ex[idx]
    if ln[0] == "eq":
        ta, tb = tname(ln[1]), tname(ln[2])
        if ta == tb == "double":
            return "%s:eq:double:%s,%s" % (kind, region(ln[1]), region(ln[2]))
        return "%s:eq:%s,%s:%s,%s" % (kind, ta, tb, region(ln[1]), region(ln[2]))
    if ln[0] == "get":
        return "%s:get:%s->%s:%s" % (kind, tname(ln[1]), NAME[ln[2]], region(ln[1]))
    return "%s:%s" % (kind, ln[0])


def group(rows):
    """rows -> executions, one per (operand types): a rejected execution hides only its own remaining rows"""
    g = {}
    for r in rows:
        k = (r[0], tname(r[1]), tname(r[2]) if r[0] == "eq" else r[2])
        g.setdefault(k, [["env"]]).append(r)
    return [g[k] for k in sorted(g)]


def reinterpret(pattern, code):
    p = pattern & ((1 << BITS[code]) - 1)
    if code in SIGNED and p >> (BITS[code] - 1):
        p -= 1 << BITS[code]
    return p


def random_rows(rng, n):
    """seeded random operands from the real value space: 64-bit patterns reinterpreted in each type, biased to
    the collisions the conversions can produce (same pattern in another signedness / width, neighbours)."""
    codes = list(BITS)
    rows = []
    edges = [0, 1, 2 ** 15, 2 ** 16, 2 ** 31, 2 ** 32, 2 ** 47, 2 ** 48, 2 ** 63, 2 ** 64 - 1]

    def pattern():
        r = rng.random()
        if r < 0.35:
            return rng.getrandbits(64)
        if r < 0.55:
            return (rng.choice(edges) + rng.randrange(-3, 4)) & (2 ** 64 - 1)
        if r < 0.75:
            return rng.getrandbits(rng.choice([8, 16, 31, 32, 33, 48, 63]))
        if r < 0.9:
            return (2 ** 64 - 1 - rng.getrandbits(rng.choice([4, 16, 31, 32, 33]))) & (2 ** 64 - 1)
        return rng.getrandbits(32) * (2 ** 32 + 1)

    def xr(q=None, allow=("fin", "fin", "fin", "fin", "inf", "nan")):
        k = rng.choice(allow)
        if k == "fin":
            qq = rng.randrange(-2 ** 20, 2 ** 20) if q is None else q
            return {"k": "fin", "neg": qq < 0, "q": qq}
        return {"k": k, "neg": k == "inf" and rng.random() < 0.5, "q": 0}

    def rstr(nmax=6):
        return "".join(rng.choice("abAB z0") for _ in range(rng.randrange(0, nmax)))

    for _ in range(n):
        r = rng.random()
        if r < 0.55:
            p = pattern()
            ta, tb = rng.choice(codes), rng.choice(codes)
            q = rng.choice([p, p, p, (p + rng.choice([-1, 1])) & (2 ** 64 - 1), p & 0xffffffff, p | (0xffffffff << 32), pattern()])
            rows.append(["eq", enc_int(ta, reinterpret(p, ta)), enc_int(tb, reinterpret(q, tb))])
        elif r < 0.75:
            p = pattern()
            ta = rng.choice(codes)
            rows.append(["get", enc_int(ta, reinterpret(p, ta)), rng.choice(codes)])
        elif r < 0.87:
            tol = xr(rng.choice([0, 1, 2, 8, 1000, rng.randrange(0, 2 ** 16)]), ("fin",) * 8 + ("inf", "nan"))
            if tol["k"] == "inf":
                tol["neg"] = False
            a = xr()
            if a["k"] == "fin" and tol["k"] == "fin":
                d = rng.choice([0, tol["q"], tol["q"] + 1, max(0, tol["q"] - 1), rng.randrange(0, 2 ** 17)]) * rng.choice([-1, 1])
                b = rng.choice([xr(a["q"] + d), xr(a["q"] + d), xr()])
            else:
                b = rng.choice([dict(a), xr()])
            tol2 = xr(rng.choice([0, 1, 5, 2 ** 18]), ("fin",) * 9 + ("nan",))
            rows.append(["eq", enc({"t": "double", "v": a, "tol": tol}), enc({"t": "double", "v": b, "tol": tol2})])
        elif r < 0.93:
            s = rstr()
            s2 = rng.choice([s, s, s + rng.choice("ab"), s[:-1], s.swapcase(), rstr()])
            if rng.random() < 0.5:
                rows.append(["eq", "S|" + s.encode().hex(), "S|" + s2.encode().hex()])
            else:
                b1 = bytes(rng.randrange(256) for _ in range(rng.randrange(0, 9)))
                b2 = rng.choice([b1, b1, b1 + b"\0", b1[:-1], bytes(x ^ (1 if i == len(b1) - 1 else 0) for i, x in enumerate(b1)), b1[::-1]])
                rows.append(["eq", "M|" + b1.hex(), "M|" + b2.hex()])
        else:
            def anyv():
                c = rng.randrange(9)
                if c == 0:
                    t = rng.choice(codes)
                    return enc_int(t, reinterpret(rng.choice([0, 1, 2, 3]), t))
                if c == 1:
                    return "B|%d" % rng.randrange(2)
                if c in (2, 3, 4):
                    return "P|%s|%d" % ("vcf"[c - 2], rng.randrange(3))
                if c == 5:
                    return "S|" + rng.choice(["", "1", "a"]).encode().hex()
                if c == 6:
                    return "M|" + rng.choice([b"", b"\1", b"a"]).hex()
                if c == 7:
                    return enc({"t": "double", "v": xr(rng.choice([0, 8, 16])), "tol": xr(0, ("fin",))})
                return "O|%s|%d" % (rng.choice(["TypeA", "TypeB"]), rng.randrange(1, 3))
            rows.append(["eq", anyv(), anyv()])
    return rows


def aliased(rows):
    """memory-buffer comparisons again with both values starting at the same address (one content is a prefix of the other, or they
    are equal): equality is by length and content, an implementation must not short-cut on the address"""
    out = []
    for r in rows:
        if r[0] == "eq" and r[1].startswith("M|") and r[2].startswith("M|"):
            a, b = r[1][2:], r[2][2:]
            if a.startswith(b) or b.startswith(a):
                out.append([r[0], r[1], r[2], "alias"])
    return out


def run(ctx):
    exe = ctx.build_harness("mockvalue", "asan")
    tcfg = ctx.write_cfg("Trace_MockValue", TRACE)
    pcfg = ctx.write_cfg("Predict_MockValue", PREDICT)

    def harness(s, l):
        return ctx.run([exe, s, l], timeout=900)

    if ctx.replay:
        rp = json.load(open(ctx.replay))
        ex = [l.split("\t") for l in rp["script"]]
        conform(ctx, "replay", [ex], harness, "Trace_MockValue", tcfg, pcfg, key_fn, meta=rp.get("meta"))
        return ctx.finish("replay of one recorded execution", 1)

    # ---- leg 1: the specification satisfies the property on the boundary lattice; the design layer refines it
    r = ctx.model_check("MockValue", ctx.write_cfg("MC_MockValue", MC), workers=4, timeout=600)
    neg = ctx.tlc("MockValue", ctx.write_cfg("MCneg_MockValue", MCNEG), workers=1, timeout=600, count=False)
    if neg.rc != 12:
        raise Infra("non-vacuity check failed: GetterUnguardedRefines is expected to be violated (rc=%s)" % neg.rc)
    ctx.notes["model"] = {"distinct_states": r.distinct, "depth": r.depth,
                          "constants": "24-point boundary lattice x 6 integer types (83 in-range values, 6889 ordered pairs), 86 non-integer / mixed values, 498 getter calls",
                          "non_vacuity": "GetterUnguardedRefines violated as expected (unguarded conversion returns a different number)"}

    # ---- leg 2: the table generated by TLC from the specification, every row executed on real MockNamedValue objects
    g = ctx.tlc("Gen_MockValue", ctx.write_cfg("Gen_MockValue", GEN), workers=4, timeout=900)
    rows = []
    for h in g.beh:
        c = h[0]
        rows.append(["eq", enc(c["a"]), enc(c["b"])] if c["op"] == "eq" else ["get", enc(c["a"]), CODE[c["b"]["t"]]])
    if len(rows) < 10000:
        raise Infra("table generation produced only %d rows" % len(rows))
    rows += aliased(rows)
    execs = group(rows)
    ctx.sample({"source": "TLC table (Gen_MockValue)", "rows": ["\t".join(x) for x in rows[:: max(1, len(rows) // 6)][:6]]})
    conform(ctx, "table", execs, harness, "Trace_MockValue", tcfg, pcfg, key_fn, max_report=8, meta={"leg": "table"})
    ctx.evaluations += 2 * sum(1 for x in rows if x[0] == "eq") + sum(1 for x in rows if x[0] == "get")
    nontrivial = set()
    for x in rows:
        if (x[0] == "eq" and x[1][0] == "I" and x[2][0] == "I" and tname(x[1]) != tname(x[2])) or (x[0] == "get" and tname(x[1]) != NAME[x[2]]):
            nontrivial.add("\t".join(x))

    # ---- leg 3: seeded random operands from the whole 64-bit value space
    n = 6000 if ctx.quick else 150000
    rrows = random_rows(ctx.rng, n)
    rrows += aliased(rrows)
    ctx.sample({"source": "seeded random operands", "rows": ["\t".join(x) for x in rrows[:6]]})
    conform(ctx, "random", group(rrows), harness, "Trace_MockValue", tcfg, pcfg, key_fn, max_report=8, tlc_timeout=1800, meta={"leg": "random"})
    ctx.evaluations += 2 * sum(1 for x in rrows if x[0] == "eq") + sum(1 for x in rrows if x[0] == "get")
    for x in rrows:
        if (x[0] == "eq" and x[1][0] == "I" and x[2][0] == "I" and tname(x[1]) != tname(x[2])) or (x[0] == "get" and tname(x[1]) != NAME[x[2]]):
            nontrivial.add("\t".join(x))
    return ctx.finish(
        rule="rows = every call of MockValue over the boundary lattice (TLC-generated table: all 36 integer type pairs x in-range lattice "
             "points, non-integer types, six getters per stored integer) plus seeded random 64-bit patterns reinterpreted in each type; each row "
             "runs equals() in both directions or one getter inside a fixture test on real MockNamedValue objects; distinct = distinct rows; "
             "non-trivial = integer comparison across two different types, or a getter of another type than the stored one",
        distinct_nontrivial=len(nontrivial), exhaustive=False,
        assumptions=["LP64 widths (checked against sizeof by the env line of every log)",
                     "doubles are multiples of 2^-3 below 2^21 (exact in binary), +-inf, NaN; tolerances non-negative or NaN",
                     "user-type objects are compared with a comparator that compares contents; strings are non-NULL",
                     "exhaustive over the lattice only; beyond it random samples"])
