"""Shared by c05.py and c06.py: script lines for harness/blocks.cpp, configuration texts for LeakBlocks, constants extraction."""
import json
from vlib.core import Infra

CAP = 4608          # capacity of one arena slot = the largest request the underlying allocator satisfies (multiple of 64)
FIELDS = ["op", "ep", "s", "s2", "sz", "sz2", "fault", "pos", "val", "var"]
FAM = {"new": "new", "newdbg": "new", "newnt": "new", "delete": "new", "newarr": "newarr", "newarrdbg": "newarr", "newarrnt": "newarr",
       "deletearr": "newarr", "malloc": "malloc", "free": "malloc"}
FAM_ALLOC = ["new", "newdbg", "newnt", "newarr", "newarrdbg", "newarrnt", "malloc"]
REL_OF = {"new": "delete", "newarr": "deletearr", "malloc": "free"}
# every form of operator delete / delete[] (LeakBlocks!DelForms / DelArrForms)
FORMS = {"delete": ["delete", "deletesz", "deletent", "deletedbg", "deletedbgi"],
         "deletearr": ["deletearr", "deletearrsz", "deletearrnt", "deletearrdbg", "deletearrdbgi"], "free": ["free"]}
for _base, _forms in FORMS.items():
    for _f in _forms:
        FAM[_f] = FAM[_base]


def sym(x):
    """python value -> symbolic size text t:e:n.  int n -> S; ("T", k) -> SIZE_MAX-k; ("P", e, d) -> 2^e+d."""
    if isinstance(x, str):
        return x
    if isinstance(x, int):
        return "S:0:%d" % x
    if x[0] == "T":
        return "T:0:%d" % x[1]
    return "P:%d:%d" % (x[1], x[2])


def L(op, ep="", s=0, s2=0, sz=0, sz2=0, fault="none", pos=0, val=0, var=""):
    return [op, ep, s, s2, sym(sz), sym(sz2), fault, pos, val, var]


def beh_to_exec(h):
    out = []
    for st in h:
        ln = []
        for f in FIELDS:
            v = st[f]
            if isinstance(v, dict):
                v = "%s:%d:%d" % (v["t"], v["e"], v["n"])
            ln.append(v)
        out.append(ln)
    return out


def show(e, n=12):
    return ["\t".join(map(str, l)) for l in e[:n]]


def constants(ctx, exe):
    rc, out, to = ctx.run([exe, "--constants"], timeout=60)
    try:
        K = json.loads(out.strip().splitlines()[-1])
    except Exception:
        raise Infra("cannot extract layout constants from the build: rc=%s %s" % (rc, out[-500:]))
    if not (0 <= K["guard"] <= 3) or len(K["gb"]) != K["guard"] or K["align"] not in (4, 8):
        raise Infra("layout constants outside what LeakBlocks models (0..3 guard bytes, 4/8-byte pointers): %s" % K)
    K["sepall"] = "TRUE" if K["guard"] == 0 else "FALSE"
    code = 0
    for b in K["gb"]:
        code = code * 256 + b
    K["gbcode"] = code
    return K


HEAD = """SPECIFICATION %(spec)s
CONSTANTS
  Slots = {%(slots)s}
  Cap = %(cap)d
  Guard = %(guard)d
  Align = %(align)d
  NodeSize = %(node)d
  SepAll = %(sepall)s
  GBCode = %(gbcode)d
"""
MENU = """  SmallSizes = {%(small)s}
  BigSizes <- %(big)s
  CallocPairs <- %(pairs)s
  StrLens = {%(strlens)s}
  StrNs <- %(strns)s
  Vals = {%(vals)s}
  Faults = {%(faults)s}
  Variants = {%(variants)s}
  Eps = {%(eps)s}
  MaxOff = %(maxoff)d
"""
NOMENU = """  SmallSizes = {}
  BigSizes = {}
  CallocPairs = {}
  StrLens = {}
  StrNs = {}
  Vals = {}
  Faults = {}
  Variants = {}
  Eps = {}
  MaxOff = 0
"""


def mc_cfg(K, invs, cap=200, **menu):
    d = dict(K); d.update(menu); d.update(spec="Spec", cap=cap)
    return (HEAD + MENU) % d + "INVARIANTS " + invs + "\nCHECK_DEADLOCK FALSE\n"


def gen_cfg(K, D, cap=CAP, **menu):
    d = dict(K); d.update(menu); d.update(spec="GSpec", cap=cap)
    return (HEAD + MENU) % d + "  D = %d\nINVARIANTS Dump\nCHECK_DEADLOCK FALSE\n" % D


def trace_cfg(K, spec, tail, cap=CAP):
    d = dict(K); d.update(spec=spec, cap=cap, slots="0, 1, 2, 3, 4, 5, 6, 7")
    return HEAD % d + NOMENU + tail + "\nCHECK_DEADLOCK FALSE\n"


def key_fn(kind, ex, idx, observed):
    """Identify the failing class of call: operation, entry point, size class, fault, and what the code answered."""
    if idx >= len(ex):
        return "%s:?" % kind
    l = ex[idx]
    op, ep, fault = l[0], l[1], l[6]
    parts = [kind, op]
    if ep:
        parts.append(str(ep))
    if op in ("alloc", "calloc", "realloc", "strdup", "strndup"):
        parts.append("size=" + str(l[4]).split(":")[0] + ("x" + str(l[5]).split(":")[0] if op in ("calloc", "strndup") else ""))
        parts.append("fault=" + str(fault))
    if observed:
        if op == "release":
            parts.append("reported=" + str(observed.get("rep")))
            if observed.get("over") == "no":
                parts.append("not-overwritten")
        elif "ret" in observed:
            parts.append("ret=" + str(observed.get("ret")))
        for flag in ("intact", "clean"):
            if observed.get(flag) is False:
                parts.append("not-" + flag)
    return ":".join(parts)


def with_periods(rng, ex):
    """The same execution with MemoryLeakDetector period switches (disable / enable / startChecking) interleaved: SetPeriod of LeakBlocks
    changes no variable, so every later answer must be what it is without the switch."""
    out = [L("period", var=rng.choice(["disabled", "enabled", "checking"]))] if rng.random() < 0.6 else []
    for l in ex:
        if rng.random() < 0.12:
            out.append(L("period", var=rng.choice(["disabled", "disabled", "enabled", "checking"])))
        out.append(l)
    return out


def with_forms(rng, ex):
    """The same execution with every release through another form of the same operator (sized, nothrow placement, debug placement):
    the form does not change the family."""
    out = []
    for l in ex:
        if l[0] == "release" and l[1] in FORMS:
            l = list(l); l[1] = rng.choice(FORMS[l[1]])
        out.append(l)
    return out


def mode_legs(ctx, conform, exe, execs, tcfg, pcfg, chunk=4000):
    """Re-runs executions (1) through the thread-safe operator new/delete overloads, (2) with detector period switches interleaved,
    (3) with every release through a randomly chosen other form of the same operator delete / delete[].
    Same specification: one meaning per entry point, whichever overloads are installed and whatever the detector's period."""
    run_ts = lambda s, l: ctx.run([exe, s, l, str(CAP), "ts"], timeout=900)
    run_h = lambda s, l: ctx.run([exe, s, l, str(CAP)], timeout=900)
    for i in range(0, len(execs), chunk):
        conform(ctx, "threadsafe%d" % (i // chunk), execs[i:i + chunk], run_ts, "Trace_LeakBlocks", tcfg, pcfg, lambda *a: "ts:" + key_fn(*a), tlc_timeout=1800,
                meta={"mode": "ts"})
    pe = [with_periods(ctx.rng, e) for e in execs]
    for i in range(0, len(pe), chunk):
        conform(ctx, "periods%d" % (i // chunk), pe[i:i + chunk], run_h, "Trace_LeakBlocks", tcfg, pcfg, lambda *a: "period:" + key_fn(*a), tlc_timeout=1800)
    fe = [with_forms(ctx.rng, e) for e in execs if any(l[0] == "release" for l in e)]
    for i in range(0, len(fe), chunk):
        conform(ctx, "forms%d" % (i // chunk), fe[i:i + chunk], run_h, "Trace_LeakBlocks", tcfg, pcfg, lambda *a: "forms:" + key_fn(*a), tlc_timeout=1800)
    ctx.evaluations += sum(len(e) for e in execs) + sum(len(e) for e in pe) + sum(len(e) for e in fe)
    return len(execs) + len(pe) + len(fe)
