"""C14 - diagnostics are safe to build, bounded and truthful (ReportBuffer.tla, FailMsg.tla)."""
import os, json
from vlib.core import Infra, crashed
from vlib.conform import conform, read_log, write_script
from harnessrun import run_harness

# ------------------------------------------------------------------ buffer part
RB_CONST = """  Cap = %(Cap)d
  Reserve = %(Reserve)d
  NoticeLen = %(NoticeLen)d
  FooterBase = %(FooterBase)d
  WarnLen = %(WarnLen)d
  NoLeakLen = %(NoLeakLen)d
  HeaderLen = %(HeaderLen)d
"""
RB_MC = """SPECIFICATION Spec
CONSTANTS
%(const)s  Lens = {%(lens)s}
  MsgLens = {%(msglens)s}
  Digits = {1, 10}
  MaxLeaks = %(maxleaks)d
  MaxOps = %(maxops)d
INVARIANTS TypeOK InBounds Terminated TruthfulWhenFresh ListingSane ReserveSufficient
CHECK_DEADLOCK FALSE
"""
RB_GEN = """SPECIFICATION GSpec
CONSTANTS
%(const)s  Lens = {1}
  MsgLens = {1}
  Digits = {1}
  MaxLeaks = 3
  MaxOps = 1000000
  D = %(D)d
  FLens = {%(flens)s}
  Sizes = {%(sizes)s}
  Counts = {%(counts)s}
  MKinds = {%(mkinds)s}
  LKinds = {%(lkinds)s}
  MsgBase = %(MsgBase)d
  ABase = %(ABase)d
  FBase = %(FBase)d
  LBase = %(LBase)d
  UnknownLen = 9
INVARIANTS Dump
CHECK_DEADLOCK FALSE
"""
RB_TRACE = """SPECIFICATION %(spec)s
CONSTANTS
%(const)s  Lens = {1}
  MsgLens = {1}
  Digits = {1}
  MaxLeaks = 1
  MaxOps = 1
%(tail)s
CHECK_DEADLOCK FALSE
"""
PROBE = [["report"], ["reset"], ["leak", "new", 1, 1, 1], ["report"], ["reset"], ["leak", "malloc", 1, 1, 1], ["report"], ["reset"],
         ["leak", "new", 3000, 10, 3], ["report"], ["reset"], ["misuse", "nonalloc", 0, 0], ["misuse", "mismatch", 0, 0], ["misuse", "corrupt", 0, 0]]


def rb_probe(ctx, exe):
    """Constants extraction: Cap, the footer reservation and the lengths of the fixed pieces of text, measured on the
    code under test through the vsnprintf seam and the H2 hooks."""
    script = os.path.join(ctx.work, "rbprobe.tsv")
    logp = os.path.join(ctx.work, "rbprobe.ndjson")
    with open(script, "w") as f:
        for ln in PROBE:
            f.write("\t".join(map(str, ln)) + "\n")
    rc, out, to = run_harness(ctx, [exe, script, logp], logp, timeout=120)
    log = read_log(logp)
    if crashed(rc, out) or rc != 0 or len(log) != len(PROBE):
        raise Infra("cannot measure the buffer constants: probe run failed (%s)\n%s" % (crashed(rc, out) or rc, out[-1500:]))
    reps = [e for e in log if e["op"] == "report"]
    mis = [e for e in log if e["op"] == "misuse"]
    try:
        cap = reps[0]["cap"]
        low = reps[1]["apps"][0]["lim"]             # the limit under which the listing is written
        c = {"Cap": cap, "Reserve": cap - low, "NoLeakLen": reps[0]["apps"][0]["ret"]}
        assert reps[1]["stated"] == 1 and reps[1]["listed"] == 1 and not reps[1]["notice"] and reps[0]["stated"] == 0
        c["HeaderLen"] = reps[1]["apps"][0]["ret"]
        # the pieces written after the listing (limit put back): measured as sums, so that it does not matter into how many writes
        # the code splits them - footer of a report of 1 leak; the same plus the malloc warning; notice plus footer of report 3
        tail = lambda r: sum(a["ret"] for a in r["apps"] if a["lim"] != low)
        digits = lambda n: len(str(n))
        c["FooterBase"] = tail(reps[1]) - digits(reps[1]["n"])
        c["WarnLen"] = tail(reps[2]) - tail(reps[1])
        assert reps[3]["notice"] and not reps[3]["warn"]
        c["NoticeLen"] = tail(reps[3]) - c["FooterBase"] - digits(reps[3]["n"])
        assert c["FooterBase"] > 0 and c["WarnLen"] > 0 and c["NoticeLen"] > 0
        lead = [a for a in reps[1]["apps"] if a["lim"] == low]
        # typical lengths of the pieces of a misuse message, used only to size the model-checking configuration: taken from the
        # individual writes when the code makes them separately, else a third of the whole message each
        m0, m1 = [a["ret"] for a in mis[0]["apps"]], [a["ret"] for a in mis[1]["apps"]]
        third = max(1, sum(m1) // 3)
        nominal = {"MsgBase": m0[0] if len(m0) > 1 else max(1, sum(m0) // 2), "ABase": m1[1] if len(m1) > 2 else third,
                   "FBase": m1[2] if len(m1) > 2 else third, "LBase": max(1, sum(a["ret"] for a in lead[1:]) - 1 - 63)}
    except (AssertionError, IndexError, KeyError) as ex:
        raise Infra("projection broken: the probe reports do not have the expected shape (%r): %s" % (ex, json.dumps(reps)[:1200]))
    return c, nominal


def rb_random_exec(rng, nops):
    """Seeded random history: 0..40 misuse messages with short/long file names, leaks by the batch (0..3000, any size),
    reports with and without clearing first."""
    ex = []
    flen = lambda: rng.choice([0, 1, 12, 40, 200, 600, 600, 1500, 4095, 5000])
    for _ in range(nops):
        r = rng.random()
        if r < 0.40:
            k = rng.choice(["nonalloc", "mismatch", "corrupt"])
            ex.append(["misuse", k, 0 if k == "nonalloc" else flen(), flen(), 0])
        elif r < 0.60:
            ex.append(["leak", rng.choice(["new", "malloc"]), rng.choice([0, 1, 7, 16, 17, 100, 700, 5000]), flen(),
                       rng.choice([1, 1, 2, 5, 30, 300, 3000])])
        elif r < 0.66:
            ex.append(["freeall", "", 0, 0, 0])
        elif r < 0.80:
            ex.append(["clear", "", 0, 0, 0])
            ex.append(["report", "", 0, 0, 0])
        elif r < 0.95:
            ex.append(["report", "", 0, 0, 0])
        else:
            ex.append(["clear", "", 0, 0, 0])
    ex.append(["report", "", 0, 0, 0])
    return ex


def rb_key(kind, ex, idx, observed):
    if idx >= len(ex):
        return "%s:end" % kind
    op = ex[idx][0]
    # history class: was the text cleared since the last message / report, how much long-named misuse text came before
    since = 0
    for ln in ex[:idx]:
        if ln[0] == "clear":
            since = 0
        elif ln[0] in ("misuse", "report"):
            since += 1
    return "%s:%s:%s" % (kind, op, "on-cleared-buffer" if since == 0 else "after-earlier-text")


def buffer_part(ctx, nontrivial):
    quick = ctx.quick
    exe = ctx.build_harness("repbuf", "asan")
    harness = lambda s, l: run_harness(ctx, [exe, s, l], l, timeout=900)
    c, nominal = rb_probe(ctx, exe)
    const = RB_CONST % c
    ctx.notes["buffer_constants_measured"] = c
    tcfg = ctx.write_cfg("Trace_ReportBuffer", RB_TRACE % {"spec": "TSpec", "const": const, "tail": "INVARIANT TInv\nPOSTCONDITION Accepted"})
    pcfg = ctx.write_cfg("Predict_ReportBuffer", RB_TRACE % {"spec": "PSpec", "const": const, "tail": "INVARIANT Predict"})

    # ---- leg 1: with the numbers of the code under test the design keeps every write inside the buffer and the footer whole
    mc = {"const": const, "lens": "1, 30, 700, %d, %d" % (c["Cap"] - 1, c["Cap"] + 904), "msglens": str(nominal["MsgBase"]),
          "maxleaks": 2 if quick else 3, "maxops": 6 if quick else 8}
    r = ctx.tlc("ReportBuffer", ctx.write_cfg("MC_ReportBuffer", RB_MC % mc), workers=8, timeout=1500, heap="8g")
    ctx.notes["model_buffer"] = {"distinct_states": r.distinct, "depth": r.depth, "lens": mc["lens"], "maxops": mc["maxops"]}
    if r.rc != 0:
        ctx.diverge("model:ReportBuffer:%s" % (r.violated or "rc%d" % r.rc),
                    "with the constants measured from the code (%s) the buffer design violates %s:\n%s" % (c, r.violated, r.out[-1800:]),
                    {"kind": "model", "constants": c, "tlc_tail": r.out[-3000:]})
    return exe, harness, c, nominal, const, tcfg, pcfg


def buffer_legs(ctx, exe, harness, c, nominal, const, tcfg, pcfg, nontrivial):
    quick = ctx.quick
    base = dict(nominal)
    base["const"] = const
    gens = [
        ("rb-bfs", dict(base, D=4 if quick else 5, flens="30, 1500", sizes="100", counts="1, 60" if quick else "60", mkinds='"mismatch"', lkinds='"malloc"'), None, None),
        ("rb-sim", dict(base, D=14, flens="0, 1, 40, 600, 1500, 4095, 5000", sizes="0, 1, 16, 17, 700, 5000", counts="1, 2, 30, 3000",
                        mkinds='"nonalloc", "mismatch", "corrupt"', lkinds='"new", "malloc"'), 12 if quick else 150, 20),
    ]
    corners = 0
    for (lab, gen, sim, depth) in gens:
        g = ctx.tlc("Gen_ReportBuffer", ctx.write_cfg("Gen_ReportBuffer_" + lab, RB_GEN % gen), workers=8, simulate=sim, depth=depth, timeout=1800, heap="8g")
        execs = [[[st["op"], st["kind"], st["x"], st["y"], st["cnt"]] for st in b["calls"]] for b in g.beh]
        if not execs:
            raise Infra("no behaviours generated by " + lab)
        corners += sum(1 for b in g.beh if b["over"] or b["cut"])
        ctx.sample({"source": "TLC " + lab, "execution": ["\t".join(map(str, l)) for l in execs[ctx.rng.randrange(len(execs))]][:14]})
        conform(ctx, lab, execs, harness, "Trace_ReportBuffer", tcfg, pcfg, rb_key, tlc_timeout=1800)
        ctx.evaluations += sum(len(e) for e in execs)
        for b, e in zip(g.beh, execs):
            if b["over"] or b["cut"]:
                nontrivial.add(json.dumps(e))
    ctx.notes["generated_behaviours_in_corners"] = corners
    nexec, nops = (12, 30) if quick else (150, 60)
    execs = [rb_random_exec(ctx.rng, nops) for _ in range(nexec)]
    ctx.sample({"source": "seeded random driver (buffer)", "execution": ["\t".join(map(str, l)) for l in execs[0][:14]]})
    conform(ctx, "rb-random", execs, harness, "Trace_ReportBuffer", tcfg, pcfg, rb_key, tlc_timeout=2400)
    ctx.evaluations += sum(len(e) for e in execs)
    for e in execs:
        nontrivial.add(json.dumps(e))


# ------------------------------------------------------------------ message part
FM_MC = """SPECIFICATION Spec
CONSTANTS
  Syms = {%(syms)s}
  MaxLen = %(maxlen)d
  Widths = {%(widths)s}
  Fills = {%(fills)s}
  BV = {%(bv)s}
  AIdx = {%(aidx)s}
  MV = {%(mv)s}
INVARIANT Lemmas
CHECK_DEADLOCK FALSE
"""
FM_GEN = """SPECIFICATION GSpec
CONSTANTS
  Syms = {%(syms)s}
  MaxLen = %(maxlen)d
  Widths = {%(widths)s}
  Fills = {%(fills)s}
  BV = {%(bv)s}
  AIdx = {%(aidx)s}
  MV = {%(mv)s}
  Kinds = {%(kinds)s}
  MaxSum = %(maxsum)d
  Grid = %(grid)d
INVARIANT Dump
CHECK_DEADLOCK FALSE
"""
FM_KINDS = '"streq", "nocase", "checkeq", "bineq", "bitseq", "equals", "contains", "exception", "unsupported"'
ONE_OPERAND = ("exception", "unsupported")
RENDERED = ("equals", "contains", "exception", "unsupported")
FM_TRACE = """SPECIFICATION %(spec)s
CONSTANTS
  Syms = {1}
  MaxLen = 1
  Widths = {1}
  Fills = {0}
  BV = {0}
  AIdx = {1}
  MV = {0}
%(tail)s
CHECK_DEADLOCK FALSE
"""
BYTE = {1: "a", 2: "A", 3: "b", 4: "\\", 5: "n", 6: "\n", 7: "\x01", 8: "x", 9: "y"}
CODE = {v: k for k, v in BYTE.items()}


def tohex(codes):
    return "".join("%02x" % ord(BYTE[c]) for c in codes)


def printed(codes):
    return "".join({6: "\\n", 7: "\\x01"}.get(c, BYTE[c]) for c in codes)


def rle(codes):
    out = []
    for c in codes:
        if out and out[-1][0] == c:
            out[-1][1] += 1
        else:
            out.append([c, 1])
    return out


def unrle(runs):
    return [c for c, n in runs for _ in range(n)]


def legal_row(kind, e, a):
    """Is (e, a) a pair of operands on which a check of this kind fails (so that the failure object is built)?"""
    if kind == "streq":
        return e != a
    if kind == "nocase":
        return [1 if c == 2 else c for c in e] != [1 if c == 2 else c for c in a]
    if kind == "bineq":
        return len(e) == len(a) and e != a
    if kind == "contains":
        return "".join(BYTE[c] for c in e) not in "".join(BYTE[c] for c in a)
    if kind in ONE_OPERAND:
        return a == []
    return True


def rand_text(rng, n, syms):
    """n symbols in a few runs (long operands stay cheap to log and to expand)"""
    runs, left = [], n
    while left > 0:
        k = left if (rng.random() < 0.35 or len(runs) >= 5) else rng.randint(1, left)
        runs.append([rng.choice(syms), k])
        left -= k
    return unrle(runs)


def length_random(rng, n, maxsum):
    """Seeded random failing checks of every string kind: the sum of the operand lengths uniform in 0..maxsum, any split, operands of
    a few runs over the whole alphabet (unprintable symbols included for the kinds that escape), differing anywhere."""
    esc_syms = [1, 2, 3, 4, 5, 8, 9, 1, 8, 9, 6, 7]
    plain = [1, 2, 3, 4, 5, 8, 9]
    rows = []
    while len(rows) < n:
        kind = rng.choice(["streq", "nocase", "checkeq", "bineq", "equals", "contains", "exception", "unsupported"])
        syms = plain if kind in RENDERED else esc_syms
        S = rng.randint(0, maxsum)
        if kind in ONE_OPERAND:
            e, a = rand_text(rng, S, syms), []
        elif kind == "bineq":
            e = rand_text(rng, max(1, S // 2), syms)
            a = list(e)
            i = rng.randrange(len(a))
            a[i] = rng.choice([c for c in syms if c != a[i]])
        else:
            ne = rng.choice([0, S, rng.randint(0, S), rng.randint(0, S)])
            e = rand_text(rng, ne, syms)
            if rng.random() < 0.3 and kind != "contains":
                # a common beginning: the difference anywhere, also at the very end / one operand a prefix of the other
                a = (e + rand_text(rng, S, syms))[:S - ne] if S - ne else []
            else:
                a = rand_text(rng, S - ne, syms)
        if legal_row(kind, e, a):
            rows.append([kind, tohex(e), tohex(a)])
    return rows


def hex8(v):
    return "%016x" % (v & 0xFFFFFFFFFFFFFFFF)


def bits_sweep():
    """Every operand width 1..8 with every one of the 64 bit positions: a single 1 / a single 0 in expected under the full mask,
    and a full-ones expected against zero under a mask that selects / excludes a single position."""
    full = 0xFFFFFFFFFFFFFFFF
    rows = []
    for w in range(1, 9):
        for p in range(64):
            b = 1 << p
            rows.append(["bitseq", hex8(b), hex8(0), hex8(full), w])
            rows.append(["bitseq", hex8(full ^ b), hex8(full), hex8(full), w])
            rows.append(["bitseq", hex8(full), hex8(0), hex8(b), w])
            rows.append(["bitseq", hex8(full), hex8(0), hex8(full ^ b), w])
    return rows


def bits_random(rng, n):
    """Seeded random failing BITS_EQUAL checks: any width, 64-bit operands of several shapes (uniform, sparse, dense, the two
    halves alike), actual = another value or expected with a few bits flipped, masks full / uniform / one byte / sparse."""
    full = 0xFFFFFFFFFFFFFFFF
    def val():
        r = rng.random()
        v = rng.getrandbits(64)
        if r < 0.4:
            return v
        if r < 0.6:
            return v & rng.getrandbits(64) & rng.getrandbits(64)
        if r < 0.8:
            return v | rng.getrandbits(64) | rng.getrandbits(64)
        if r < 0.9:
            return (v & 0xFFFFFFFF) * 0x100000001
        return rng.choice([0, full, 1 << 63, 1, 0xFFFFFFFF, 0xFFFFFFFF00000000])
    rows = []
    while len(rows) < n:
        w = rng.randint(1, 8)
        e = val()
        if rng.random() < 0.5:
            a = e
            for _ in range(rng.randint(1, 3)):
                a ^= 1 << rng.randrange(64)
        else:
            a = val()
        r = rng.random()
        m = full if r < 0.3 else (rng.getrandbits(64) if r < 0.6 else (0xFF << (8 * rng.randrange(8)) if r < 0.75 else val()))
        if (e & m) == (a & m):
            continue        # BITS_EQUAL would not fail
        rows.append(["bitseq", hex8(e), hex8(a), hex8(m), w])
    return rows


def fm_key(kind, ex, idx, observed):
    if idx >= len(ex):
        return "%s:end" % kind
    if ex[idx][0] == "bitseq":
        w = int(ex[idx][4])
        what = "unsafe" if (observed or {}).get("safe") is False else "says"
        return "%s:bitseq:%s:%s" % (kind, what, "width-1-4-bytes" if w <= 4 else "width-5-8-bytes")
    k, eh, ah = ex[idx][0], ex[idx][1], ex[idx][2]
    if eh == "-" or ah == "-":
        rel = "null-operand"
    elif k in ONE_OPERAND:
        rel = "long-operand" if len(eh) > 200 else "short-operand"
    else:
        e = [CODE.get(chr(int(eh[i:i + 2], 16)), 0) for i in range(0, len(eh), 2)]
        a = [CODE.get(chr(int(ah[i:i + 2], 16)), 0) for i in range(0, len(ah), 2)]
        rel = "equal-text" if e == a else ("same-printed-form" if 0 not in e + a and printed(e) == printed(a) else
                                           ("long-operands" if max(len(e), len(a)) > 100 else "different-printed-form"))
    what = "unsafe" if (observed or {}).get("safe") is False else "says"
    return "%s:%s:%s:%s" % (kind, k, what, rel)


def unsafe_line(line, why):
    """The log line the orchestrator writes for a row on which the real code died."""
    f = line.split("\t") + ["", ""]
    if f[0] == "bitseq":
        by = lambda h: list(bytes.fromhex(h))
        return json.dumps({"op": "bitseq", "w": int(f[4]), "e": by(f[1]), "a": by(f[2]), "m": by(f[3]), "has_e": True, "has_a": True,
                           "eb": [], "ab": [], "msglen": 0, "safe": False, "why": why[:200]})
    unhex = lambda h: rle([CODE.get(chr(int(h[i:i + 2], 16)), 100 + int(h[i:i + 2], 16)) for i in range(0, len(h), 2)]) if h != "-" else []
    return json.dumps({"op": f[0], "e": unhex(f[1]), "a": unhex(f[2]), "enull": f[1] == "-", "anull": f[2] == "-",
                       "haspos": False, "pos": 0, "f": [], "raw": False, "msglen": 0, "safe": False, "why": why[:200]})


def fm_harness(ctx, exe):
    """Runs the rows; a row on which the real code dies (ASan report, signal, deadline) is noted by the orchestrator as a
    log line with safe=false and the run continues with the next row, so one unsafe row does not hide the others."""
    def run(script, logp):
        lines = [l.rstrip("\n") for l in open(script)]
        done = []
        restarts = 0
        while len(done) < len(lines):
            rest = os.path.join(ctx.work, "fm.rest.tsv")
            part = os.path.join(ctx.work, "fm.part.ndjson")
            with open(rest, "w") as f:
                f.write("\n".join(lines[len(done):]) + "\n")
            if os.path.exists(part):
                os.unlink(part)
            rc, out, to = run_harness(ctx, [exe, rest, part], part, timeout=600)
            got = [l for l in (open(part).read().split("\n") if os.path.exists(part) else []) if l.strip()]
            ok = []
            for l in got:
                try:
                    e = json.loads(l)
                    if e.get("op") == "harness-error":
                        return rc, out, to
                    if e.get("op") != "reset":
                        e["safe"] = True
                    ok.append(json.dumps(e))
                except Exception:
                    break
            done += ok
            if len(done) >= len(lines):
                break
            # the row at index len(done) was not survived
            done.append(unsafe_line(lines[len(done)], crashed(rc, out) or ("rc=%s" % rc)))
            restarts += 1
            if restarts >= 60:
                # conform reports at most a dozen rejected rows per table; executing thousands of further rows one process each
                # adds nothing: the remaining rows are marked as not executed (they would be rejected, were they ever reached)
                done += [json.dumps({"op": "reset"}) if l == "reset" else unsafe_line(l, "not executed: 60 earlier rows were not survived") for l in lines[len(done):]]
        with open(logp, "w") as f:
            f.write("\n".join(done) + "\n")
        return 0, "", False
    return run


def message_part(ctx, nontrivial):
    quick = ctx.quick
    exe = ctx.build_harness("failmsg", "asan")
    lat = {"syms": "1, 2, 4, 5, 6, 7", "maxlen": 2} if quick else {"syms": "1, 2, 4, 5, 6", "maxlen": 3}
    # bits-equal kind: widths 1..8, 64-bit operands and masks as 8 bytes built from the byte lattice
    lat.update({"widths": "1, 2, 3, 4, 5, 6, 7, 8", "fills": "0, 255", "bv": "129", "aidx": "8", "mv": "15"} if quick else
               {"widths": "1, 2, 3, 4, 5, 6, 7, 8", "fills": "0, 255", "bv": "1, 128", "aidx": "1, 5, 8", "mv": "15, 255"})
    r = ctx.model_check("FailMsg", ctx.write_cfg("MC_FailMsg", FM_MC % lat), workers=4, timeout=1500, heap="6g")
    ctx.notes["model_messages"] = {"lattice": lat}
    # Grid beyond MaxSum: the splits of a sum are (0, S), (S, 0) and the halves only
    maxsum, grid = (600, 601) if quick else (700, 16)
    gen = dict(lat, kinds=FM_KINDS, maxsum=maxsum, grid=grid)
    g = ctx.tlc("Gen_FailMsg", ctx.write_cfg("Gen_FailMsg", FM_GEN % gen), workers=8, timeout=1800, heap="8g")
    rows = [[b["kind"], tohex(b["e"]), tohex(b["a"])] for b in g.beh if b["kind"] != "bitseq" and "e" in b]
    # every operand length: the grid of the specification (for every kind every sum of the two operand lengths 0..maxsum, several
    # splits each), then seeded random operands of any content with the sum of the lengths uniform over the same range
    grid_rows = [[b["kind"], tohex(unrle(b["er"])), tohex(unrle(b["ar"]))] for b in g.beh if "er" in b]
    if not grid_rows:
        raise Infra("no rows generated by Gen_FailMsg (length grid)")
    bad = [r_ for r_ in grid_rows if not legal_row(r_[0], [CODE[chr(int(r_[1][i:i + 2], 16))] for i in range(0, len(r_[1]), 2)],
                                                   [CODE[chr(int(r_[2][i:i + 2], 16))] for i in range(0, len(r_[2]), 2)])]
    if bad:
        raise Infra("the length grid has a row on which the check would not fail: %s" % bad[0][:1])
    rnd_rows = length_random(ctx.rng, 1500 if quick else 20000, maxsum)
    ctx.notes["length_rows"] = {"max_sum_of_operand_lengths": maxsum, "grid_rows": len(grid_rows), "random_rows": len(rnd_rows),
                                "formatted_lengths_hit": len(set((r_[0], (len(r_[1]) + len(r_[2])) // 2) for r_ in grid_rows))}
    ctx.sample({"source": "length grid (TLC GLSpec) and seeded random lengths", "execution": ["\t".join(x[:60] for x in r_) for r_ in grid_rows[:2] + rnd_rows[:3]]})
    rows += grid_rows + rnd_rows
    bits = [["bitseq", bytes(b["e"]).hex(), bytes(b["a"]).hex(), bytes(b["m"]).hex(), b["w"]] for b in g.beh if b["kind"] == "bitseq"]
    if not bits:
        raise Infra("no bits-equal rows generated by Gen_FailMsg")
    ctx.notes["bits_rows_lattice"] = len(bits)
    bits += bits_sweep() + bits_random(ctx.rng, 400 if quick else 6000)
    ctx.notes["bits_rows_total"] = len(bits)
    ctx.sample({"source": "bits-equal rows (TLC lattice, position sweep, seeded random)", "execution": ["\t".join(map(str, r_)) for r_ in bits[:3] + bits[-3:]]})
    rows += bits
    if not rows:
        raise Infra("no rows generated by Gen_FailMsg")
    # beyond the lattice: NULL operands, very long operands (difference at the very end / in the middle), empty vs long
    for k in ("streq", "nocase", "equals"):
        rows += [[k, "-", tohex([1, 1])], [k, tohex([1]), "-"], [k, "-", "-"]]
    for n, d in ((300, 299), (5000, 4999), (5000, 2500), (20000, 19999)):
        e = [8] * n
        a = list(e)
        a[d] = 9
        for k in ("streq", "nocase", "checkeq", "bineq", "equals", "contains"):
            rows.append([k, tohex(e), tohex(a)])
        rows.append(["streq", tohex(e), tohex(e[:d])])
    rows += [["streq", "", tohex([8] * 5000)], ["checkeq", tohex([8] * 5000), tohex([8] * 5000)]]
    ctx.rng.shuffle(rows)
    execs = [[r_] for r_ in rows]
    ctx.sample({"source": "TLC table Gen_FailMsg", "execution": ["\t".join(map(str, r_)) for r_ in rows[:6]]})
    tcfg = ctx.write_cfg("Trace_FailMsg", FM_TRACE % {"spec": "TSpec", "tail": "POSTCONDITION Accepted"})
    pcfg = ctx.write_cfg("Predict_FailMsg", FM_TRACE % {"spec": "PSpec", "tail": "INVARIANT Predict"})
    conform(ctx, "messages", execs, fm_harness(ctx, exe), "Trace_FailMsg", tcfg, pcfg, fm_key, tlc_timeout=2400, max_report=6, heap="8g")
    ctx.evaluations += len(rows)
    for r_ in rows:
        nontrivial.add(json.dumps(r_))


def run(ctx):
    nontrivial = set()
    if ctx.replay:
        rp = json.load(open(ctx.replay))
        if rp.get("kind") == "model":
            buffer_part(ctx, nontrivial)
            return ctx.finish("re-check of the buffer model with the constants of the code", 1)
        ex = [l.split("\t") for l in rp["script"]]
        if rp.get("trace_module") == "Trace_FailMsg":
            exe = ctx.build_harness("failmsg", "asan")
            tcfg = ctx.write_cfg("Trace_FailMsg", FM_TRACE % {"spec": "TSpec", "tail": "POSTCONDITION Accepted"})
            pcfg = ctx.write_cfg("Predict_FailMsg", FM_TRACE % {"spec": "PSpec", "tail": "INVARIANT Predict"})
            conform(ctx, "replay", [ex], fm_harness(ctx, exe), "Trace_FailMsg", tcfg, pcfg, fm_key)
        else:
            exe, harness, c, nominal, const, tcfg, pcfg = buffer_part(ctx, nontrivial)
            conform(ctx, "replay", [ex], harness, "Trace_ReportBuffer", tcfg, pcfg, rb_key)
        return ctx.finish("replay of one recorded execution", 1)

    exe, harness, c, nominal, const, tcfg, pcfg = buffer_part(ctx, nontrivial)
    buffer_legs(ctx, exe, harness, c, nominal, const, tcfg, pcfg, nontrivial)
    message_part(ctx, nontrivial)
    return ctx.finish(
        rule="buffer: TLC-generated call sequences (exhaustive to depth D over long/short file names and leak batches; simulation to depth 14 "
             "over file-name lengths 0..5000, sizes 0..5000, 1..3000 leaks) plus seeded random histories on the real MemoryLeakDetector "
             "under ASan with the vsnprintf seam and the H2 hooks recorded; messages: every operand pair of the lattice for the four "
             "position-printing failure kinds plus equals / contains / unexpected-exception / unsupported-feature failures, NULL / very long operands, "
             "and every operand length: the specification's length grid (for every kind every sum 0..600 (700) of the two operand lengths with the "
             "splits all-in-expected, all-in-actual, halves (thorough: every 16th split), one-operand kinds every length) plus seeded random operands "
             "of any content and length sum - each operand must be the content of a delimited field of its own in its shown (escaped) form, "
             "on the real failure classes under ASan; bits-equal failures "
             "for every operand width 1..8 bytes: TLC byte-lattice of 64-bit operands and masks, every bit position x width sweep, seeded random "
             "64-bit operands/masks - both operand fields must show exactly 8*width positions with the operand's own bits; "
             "distinct = distinct call sequences / rows; non-trivial (buffer) = the nominal model says the behaviour reaches a report begun "
             "above the lowered limit or a truncated listing, or it is a random history; (messages) every row is a failing check",
        distinct_nontrivial=len(nontrivial), exhaustive=False,
        assumptions=["the text is written through PlatformSpecificVSNprintf (if it grew without passing the seam the fill position would not match and the check says so)",
                     "Cap, the footer reservation and the fixed text lengths are measured from the code and given to TLC as constants",
                     "the exact wording of messages is not specified: only bounds, termination, the stated total, the too-many notice, the printed position",
                     "operands of the message part use ASCII symbols only (bytes >= 0x80 are C13's subject)",
                     "an operand is shown when it is the whole content of a field the message delimits (between '<' and '>'; the text after ': ' for an unexpected exception; between quotes for an unsupported feature), escaped in C notation for the kinds that print C strings; a binary operand when a field is the hex dump of its bytes; the wording around the fields is not specified",
                     "equals / contains / exception / unsupported-feature operands are texts the caller rendered: generated printable and expected as they are",
                     "bits-equal operands: unsigned long is 8 bytes (LP64); widths 1..8 = the sizes an integer actual operand of BITS_EQUAL can have; a position the mask excludes may show a don't-care mark or the operand's true bit (the wording is not specified), never a wrong bit",
                     "memory safety and termination of message construction are observed by ASan/UBSan and a deadline on the executed rows"])
