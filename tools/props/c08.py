"""C08 - mock verdict is exact: a scenario passes iff the actual calls match the expectations; the first deviation
fails once with the matching diagnosis; return values / output parameters of the consumed expectation (Mock.tla)."""
import json, os, re
from vlib.conform import conform, read_log
from vlib.core import Infra
import mockgen as G

# leg 1: exhaustive configurations, each exercising one group of features
MC_QUICK = [
    ("core", dict(maxcalls=2)),
    ("objout", dict(fns='"f"', pnames="", objs="ObjsN1", onames='"x"', odata="Raw1", rets="Rets2", maxexp=2, ns="1", maxcalls=2)),
]
MC_THOROUGH = [
    ("core", dict(maxcalls=4)),
    ("twoparams", dict(fns='"f"', pnames='"p", "q"', ns="1, 2", maxexp=2, maxcalls=3)),
    ("spellings", dict(fns='"f"', vals="Vals3", ns="1, 2", maxexp=2, maxcalls=3)),
    ("objects", dict(fns='"f"', objs="ObjsN1", maxexp=2, ns="0, 1, 2", maxcalls=3)),
    ("outputs", dict(fns='"f"', onames='"x"', odata="Raw2", rets="Rets3", maxexp=2, ns="1, 2", maxcalls=3)),
    ("scopes", dict(scopes="ScopesGS", fns='"f"', ns="1", maxexp=2, maxcalls=3)),
    ("toggles", dict(fns='"f"', ns="1, 2", maxexp=2, maxcalls=3, late="TRUE", toggles="TRUE")),
    ("three", dict(fns='"f"', ns="1", maxexp=3, maxcalls=4)),
]
# leg 2: generation configurations (label, D, simulate runs quick/thorough (per worker), constants)
GEN = [
    ("bfs", 5, None, None, dict(fns='"f"', ns="1", maxexp=1, maxcalls=2, rets="Rets2")),
    ("simcore", 14, 25, 700, dict(pnames='"p", "q"', vals="Vals3", rets="Rets3", maxexp=3, ns="0, 1, 2", maxcalls=5)),
    ("simobj", 14, 15, 500, dict(objs="ObjsN12", onames='"x"', odata="Raw2", rets="Rets3", maxexp=3, ns="1, 2", maxcalls=4)),
    # one function, an object-bound expectation with a parameter next to a plain one (a seeded change in onObject() pruning was only
    # caught by the thorough tier before this configuration existed)
    ("simobjpar", 12, 40, 600, dict(fns='"f"', objs="ObjsN1", pnames='"p"', rets="Rets2", maxexp=2, ns="1", maxcalls=3)),
    # verdict steps (expectedCallsLeft, checkExpectations, the end of the test) over calls left in progress: exhaustive for two scopes with
    # one expectation each - every combination of "no call / finished call / open call that can / cannot be completed" per scope, with and
    # without further unfulfilled expectations -, sampled for three scopes with objects, two expectations and strict order (a call out of order
    # beside a call that cannot be completed).  Each deviation must reach the reporter once (Mock!ReportedOnce)
    ("bfsverdict", 6, None, None, dict(scopes="ScopesGS", fns='"f"', pnames='"p"', vals="Vals1", rets="Rets1", maxexp=1, ns="1", maxcalls=2, flags="FALSE")),
    ("simverdict", 12, 30, 700, dict(scopes="ScopesGST", fns='"f"', pnames='"p"', objs="ObjsN1", rets="Rets1", maxexp=2, ns="1", maxcalls=4)),
    ("simscope", 16, 15, 500, dict(scopes="ScopesGS", fns='"f"', pnames='"p", "q"', rets="Rets2", maxexp=2, ns="1, 2", maxcalls=5, late="TRUE", toggles="TRUE")),
]


def key_fn(mode):
    def f(kind, ex, idx, observed):
        op = ex[idx][0] if idx < len(ex) else "?"
        r = observed.get("r", "?") if isinstance(observed, dict) else "?"
        return "%s:%s:%s:%s" % (kind, mode, op, r)
    return f


def cut_short(ex, at=None):
    """the test may end at any point: the executions that stop right after a sub-call of ex (a call may then be in progress in one
    scope or in several - the end-of-test check has to complete them); at: one cut only"""
    cuts = [i for i in range(1, len(ex) - 1) if ex[i - 1][0] in ("begin", "param", "outparam", "object")]
    if at is not None:
        cuts = cuts[at % len(cuts):][:1] if cuts else []
    return [tuple(ex[:i]) + (("end",),) for i in cuts]


def nontrivial(ex):
    ops = [l[0] for l in ex]
    return "expect" in ops and "begin" in ops


def run(ctx):
    quick = ctx.quick
    exe = ctx.build_harness("mock", "asan")
    tcfg = ctx.write_cfg("Trace_Mock", G.trace_cfg())
    pcfg = ctx.write_cfg("Predict_Mock", G.trace_cfg("PSpec", "INVARIANT Predict"))

    def harness(mode):
        return lambda s, l: ctx.run([exe, s, l, mode], timeout=900)

    reports = {}      # measured: what the failing steps delivered to the reporter ("<mode>:<op>:<categories in order>" -> number of steps)

    def both(label, execs, meta):
        for mode in ("rec", "cpp"):
            tag = "%s-%s" % (label, mode)
            conform(ctx, tag, execs, harness(mode), "Trace_Mock", tcfg, pcfg, key_fn(mode), tlc_timeout=1800, meta=dict(meta, mode=mode))
            for e in read_log(os.path.join(ctx.work, re.sub(r"\W+", "_", tag) + ".log.ndjson")):
                if e.get("reps"):
                    k = "%s:%s:%s" % (mode, e.get("op"), "+".join(e["reps"]))
                    reports[k] = reports.get(k, 0) + 1
        ctx.evaluations += 2 * sum(len(e) for e in execs)
        ctx.notes["reports_delivered"] = dict(sorted(reports.items()))

    if ctx.replay:
        rp = json.load(open(ctx.replay))
        ex = [l.split("\t") for l in rp["script"]]
        mode = (rp.get("meta") or {}).get("mode", "rec")
        conform(ctx, "replay", [ex], harness(mode), "Trace_Mock", tcfg, pcfg, key_fn(mode), meta=rp.get("meta"))
        return ctx.finish("replay of one recorded execution", 1)

    # ---- leg 1
    model = {}
    for name, kw in (MC_QUICK if quick else MC_THOROUGH):
        r = ctx.model_check("MC_Mock", ctx.write_cfg("MC_Mock_" + name, G.mc_cfg(**kw)), workers=8, timeout=1500, heap="8g")
        model[name] = {"distinct_states": r.distinct, "depth": r.depth, "wall_s": round(r.wall, 1)}
    ctx.notes["model"] = model

    # ---- leg 2: behaviours generated by TLC from the specification, executed on the real MockSupport
    distinct = set()
    allx = []
    for lab, D, nq, nt, kw in GEN:
        n = nq if quick else nt
        g = ctx.tlc("Gen_Mock", ctx.write_cfg("Gen_Mock_" + lab, G.gen_cfg(D, **kw)), workers=8, simulate=n, depth=(D + 5) if n else None,
                    timeout=1500, heap="8g")
        execs = {tuple(tuple(map(str, l)) for l in G.beh_to_exec(h)) for h in g.beh}
        if lab == "bfsverdict":
            execs |= {c for e in execs for c in cut_short(e)}
        elif lab == "simverdict":
            execs |= {c for e in sorted(execs) for c in cut_short(e, ctx.rng.randrange(64))}
        execs = sorted(execs)
        execs = [G.assign_via(e, ctx.rng, False)[0] for e in execs]
        if not execs:
            raise Infra("no behaviours generated by " + lab)
        ctx.sample({"source": "TLC " + lab, "execution": ["\t".join(map(str, l)) for l in execs[ctx.rng.randrange(len(execs))]][:14]})
        ctx.notes.setdefault("generated", {})[lab] = len(execs)
        allx += execs
    both("tlc", allx, {"leg": "tlc"})
    for e in allx:
        if nontrivial(e):
            distinct.add(json.dumps(e))

    # ---- leg 3: seeded random scenarios (all parameter types, up to 12 expectations and 30 calls, scopes, strict order)
    n = 200 if quick else 6000
    execs = [G.assign_via(G.random_scenario(ctx.rng), ctx.rng, False)[0] for _ in range(n)]
    ctx.sample({"source": "seeded random scenario", "execution": ["\t".join(map(str, l)) for l in execs[0]][:14]})
    both("random", execs, {"leg": "random"})
    for e in execs:
        if nontrivial(e):
            distinct.add(json.dumps(e))
    return ctx.finish(
        rule="scenarios = TLC-generated behaviours of Mock (exhaustive for one expectation / two calls, simulation over 2-3 expectations, "
             "objects - the null pointer is one of the object identities, on the expectation's side and on the call's -, output parameters, scopes, disable/enable) plus seeded random scenarios (typed parameters, up to 12 expectations "
             "and 30 calls); each runs on the real MockSupport twice: with a recording reporter (category at the failing step) and as the "
             "body of a fixture test with MockSupportPlugin (real verdict, the failures the test recorded in order); every failing step / "
             "end-of-test check must deliver each deviation present once (Mock!ReportedOnce: calls in progress that cannot be completed per "
             "scope, else unfulfilled, out of order); distinct = distinct call scripts; non-trivial = has at least one expectation and one actual call",
        distinct_nontrivial=len(distinct), exhaustive=False,
        assumptions=["expectation sets are unambiguous (Mock!Unambiguous), as the property statement requires",
                     "a parameter name is passed at most once per actual call; tracing mode is not modelled",
                     "where several deviations coincide the specification admits each matching category (Mock!Finish, ParamIn)",
                     "a verdict step under a reporter that does not end the test reports the first deviation and may report each further one "
                     "(other scopes' calls that cannot be completed, calls out of order) once; unfulfilled expectations are not reported beside a call "
                     "that could not be completed (Mock!Deviations)",
                     "object identities: live objects and the null pointer (Mock!NullObj); an expectation made on an object - the null pointer too - is "
                     "met only by a call on that very object",
                     "output buffers are 8 bytes; the random scenarios install comparators and copiers for their user types per scope (mockgen.install_plan)"])
