"""C18 - the string buffer cache never aliases live buffers and gives everything back (StrCache.tla)."""
import os, json
from vlib.core import Infra, crashed
from vlib.conform import conform, read_log
from harnessrun import run_harness

MC = """SPECIFICATION Spec
CONSTANTS
  ClassMax = {%(classes)s}
  Sizes = {%(sizes)s}
  MaxIds = %(maxids)d
  MaxLive = %(maxlive)d
  AuxCounts = {%(aux)s}
INVARIANTS TypeOK NoAlias HandedOutExact BigEnough ClassStable UnderExact AllBackAfterClearAll IdleBackAfterClearCache WarnImpliesWarned
  AllBackAfterDestroy InstalledIffGlobal OneWarning NoNestedWarning
PROPERTIES WarnOnce ReturnsOwned UnknownReleaseHarmless
CHECK_DEADLOCK FALSE
"""
GEN = """SPECIFICATION GSpec
CONSTANTS
  ClassMax = {%(classes)s}
  Sizes = {%(sizes)s}
  MaxIds = 100000
  MaxLive = %(maxlive)d
  AuxCounts = {1}
  D = %(D)d
  ForeignSizes = {%(fsizes)s}
  Kinds = {%(kinds)s}
  MaxPre = %(maxpre)d
  PreSizes = {%(presizes)s}
  FixModes = {%(fix)s}
  OutN = %(outn)d
INVARIANTS Dump
CHECK_DEADLOCK FALSE
"""
TRACE = """SPECIFICATION %(spec)s
CONSTANTS
  ClassMax = {%(classes)s}
  Sizes = {0}
  MaxIds = 1
  MaxLive = 1
  AuxCounts = {1}
%(tail)s
CHECK_DEADLOCK FALSE
"""


def probe(ctx, exe, maxs=1100):
    """Constants extraction: what a fresh cache does for alloc(s); dealloc(p, s), for every s.
    Returns the class bounds (sorted). A request served with less room than asked is a violation by itself."""
    out = os.path.join(ctx.work, "probe.ndjson")
    rc, o, to = ctx.run([exe, "probe", out, str(maxs)], timeout=120)
    rows = read_log(out)
    why = crashed(rc, o)
    if why or rc != 0 or len(rows) != maxs + 1:
        n = len(rows)
        ctx.diverge("crash:probe:n=%d" % n, "fresh cache: alloc(%d) followed by dealloc did not survive: %s" % (n, why or "rc=%s" % rc),
                    {"kind": "probe", "size": n, "output_tail": o[-2000:]})
        return None
    ctx.evaluations += 2 * len(rows)
    for r in rows:
        if r["mem"] == 0 or r["room"] < r["n"]:
            ctx.diverge("alloc-too-small:n=%d" % r["n"], "fresh cache: alloc(%d) returned a buffer with %d usable bytes (underlying allocation %d)"
                        % (r["n"], r["room"], r["mem"]), {"kind": "probe", "row": r})
            return None
    kept = [r for r in rows if r["kept"]]
    if not kept or [r["n"] for r in kept] != list(range(len(kept))):
        raise Infra("cannot extract the class table: the sizes whose buffers are kept after release are not an initial interval")
    # a class = maximal run of consecutive cached sizes served with the same room
    bounds = []
    for i, r in enumerate(kept):
        if i + 1 == len(kept) or kept[i + 1]["room"] != r["room"]:
            bounds.append(r["n"])
    if len(bounds) > 12:
        raise Infra("cannot extract the class table: %d classes" % len(bounds))
    return bounds


def boundary_sizes(bounds, extra=(0, 1, 1024)):
    s = set(extra)
    for b in bounds:
        s.update([max(0, b - 1), b, b + 1])
    return sorted(s)


def random_exec(rng, nops, bounds, maxlive=24, kind="bare", prestrings=False, elsewhere=0.12):
    """Seeded random history of one kind of cache object.  bare: boundary-biased sizes, releases in arbitrary order with a
    (possibly different) size of the same class or (probability `elsewhere`) with a size of another class - then the buffer
    stays in use and is released again later -, foreign pointers, clears in between, now and then clearAll + destroy + a
    new cache; ends with clearAll.  global: buffers requested through the adaptor and by SimpleString objects, released in
    arbitrary order, now and then the global cache is destroyed with buffers still in use and constructed again; ends with
    the destruction of the global cache while buffers are in use.  prestrings: strings created before the global cache are destroyed /
    assigned to / appended to while it is installed (releases of buffers the cache does not know), with or without a current test whose
    output string predates the cache."""
    limit = bounds[-1]
    bs = boundary_sizes(bounds)
    glob = kind == "global"

    def cls(n):
        for b in bounds:
            if n <= b:
                return b
        return 0

    def same_class_size(n):
        c = cls(n)
        if c == 0:
            return rng.choice([n, limit + 1, 1024, rng.randrange(limit + 1, 1025)])
        lo = max([b for b in bounds if b < c] + [-1]) + 1
        return rng.choice([n, lo, c, rng.randrange(lo, c + 1)])

    def other_class_size(n):
        """a size of any class but n's own: another cached class (its bounds or inside), or across the cached / non-cached border"""
        c = cls(n)
        others = [b for b in bounds if b != c] + ([0] if c != 0 else [])
        o = rng.choice(others)
        if o == 0:
            return rng.choice([limit + 1, 1024, rng.randrange(limit + 1, 1025)])
        lo = max([b for b in bounds if b < o] + [-1]) + 1
        return rng.choice([lo, o, rng.randrange(lo, o + 1)])
    ex, live, na, strs = [], {}, 0, set()
    pre, npre = set(), 0

    def construct():
        """(global) a few strings are created before the cache; the calls may run inside a test whose output string predates it too"""
        nonlocal npre
        if not glob:
            ex.append(["new", 0, 0])
            return
        pre.clear()
        if prestrings:
            for _ in range(rng.randint(0, 4)):
                npre += 1
                pre.add(npre)
                ex.append(["pnew", npre, rng.choice(bs[1:]) if rng.random() < 0.6 else rng.randrange(1, 400)])
        ex.append(["gnew", 1 if prestrings and rng.random() < 0.6 else 0, 0])
    construct()
    for _ in range(nops):
        r = rng.random()
        if glob and pre and rng.random() < 0.04:
            k = rng.choice(sorted(pre))
            o = rng.choice(["pdel", "pdel", "pset", "pcat"])
            if o == "pdel":
                pre.discard(k)
                ex.append(["pdel", k, 0])
            else:
                ex.append([o, k, rng.choice(bs[1:]) if rng.random() < 0.5 else rng.randrange(1, 300)])
        elif r < 0.45 and len(live) < maxlive:
            n = rng.choice(bs) if rng.random() < 0.7 else rng.randrange(0, 1025)
            if rng.random() < 0.5 and live:       # stay in a class that is busy: interior unlinks, reuse
                n = same_class_size(rng.choice(sorted(live.values())))
            na += 1
            live[na] = n
            if glob and n > 0 and rng.random() < 0.6:
                strs.add(na)
                ex.append(["snew", na, n])
            else:
                ex.append(["alloc", na, n])
        elif r < 0.85 and live:
            k = rng.choice(sorted(live))
            if k in strs:
                ex.append(["sdel", k, live.pop(k)])
            elif rng.random() < elsewhere:        # a size of another class: an unknown release, the buffer stays in use
                ex.append(["xdealloc", k, other_class_size(live[k])])
            else:
                ex.append(["dealloc", k, same_class_size(live.pop(k))])
        elif glob:
            if r > 0.97:                          # the global cache goes away while buffers are in use; a new one is installed
                ex.append(["gdel", 0, 0])
                construct()
                live = {}
        elif r < 0.90:
            ex.append(["foreign", rng.randrange(4), rng.choice(bs + [2000])])
        elif r < 0.96:
            ex.append(["clearcache", 0, 0])
        elif r < 0.98:
            ex.append(["clearall", 0, 0])
            live = {}
            if rng.random() < 0.5:
                ex.append(["del", 0, 0])
                ex.append(["new", 0, 0])
    ex.append(["gdel", 0, 0] if glob else ["clearall", 0, 0])
    return ex


def held_at_destroy(ex):
    """the execution destroys a global cache while at least one buffer obtained through it is still in use"""
    live = set()
    for op, a, n in ex:
        a = int(a)
        if op in ("alloc", "snew"):
            live.add(a)
        elif op in ("dealloc", "sdel"):
            live.discard(a)
        elif op in ("pset", "pcat"):
            live.add(("p", a))
        elif op in ("clearall", "gnew", "new"):
            live = set()
        elif op == "gdel":
            if live:
                return True
            live = set()
    return False


def run(ctx):
    quick = ctx.quick
    exe = ctx.build_harness("strcache", "asan")

    crash_at = {}

    def key_fn(kind, ex, idx, observed):
        # a script call may be several log lines: every line carries `sl', the index of its script call
        if kind == "reject" and observed and "sl" in observed:
            idx = observed["sl"]
            ev = observed.get("op")
            if idx < len(ex) and ev != ex[idx][0]:
                return "%s:%s:%s:n=%s" % (kind, ex[idx][0], ev, observed.get("n"))
        elif kind == "crash":
            idx = crash_at.get("sl", idx)
        if idx < len(ex):
            return "%s:%s:n=%s" % (kind, ex[idx][0], ex[idx][2])
        return "%s:end" % kind

    def cfgs(bounds, tag):
        cl = ", ".join(map(str, bounds))
        t = ctx.write_cfg("Trace_StrCache_" + tag, TRACE % {"spec": "TSpec", "classes": cl, "tail": "INVARIANT TInv\nPOSTCONDITION Accepted"})
        p = ctx.write_cfg("Predict_StrCache_" + tag, TRACE % {"spec": "PSpec", "classes": cl, "tail": "INVARIANT Predict"})
        return t, p

    def harness(bounds):
        def go(s, l):
            rc, out, to = run_harness(ctx, [exe, "run", s, l] + [str(b) for b in bounds], l, timeout=300)   # deadline
            # where the run stopped (for the key of a crash): the script call after the last one logged in the last execution
            last = -1
            for e in read_log(l):
                last = -1 if e.get("op") in ("reset", "end") else e.get("sl", last)
            crash_at["sl"] = last + 1
            return rc, out, to
        return go

    def conf(label, execs, bounds, t, p, **kw):
        return conform(ctx, label, execs, harness(bounds), "Trace_StrCache", t, p, key_fn, end_op="end", **kw)

    if ctx.replay:
        rp = json.load(open(ctx.replay))
        if rp.get("kind") == "probe":
            b = probe(ctx, exe)
            return ctx.finish("replay of the class-table probe", 1)
        ex = [l.split("\t") for l in rp["script"]]
        bounds = rp["meta"]["bounds"]
        t, p = cfgs(bounds, "replay")
        conf("replay", [ex], bounds, t, p, meta=rp["meta"])
        return ctx.finish("replay of one recorded execution", 1)

    # ---- constants extraction: the class table of the code under test
    bounds = probe(ctx, exe)
    if bounds is None:
        return ctx.finish("class-table probe only (the cache failed it)", 0)
    cl = ", ".join(map(str, bounds))
    limit = bounds[-1]
    ctx.notes["class_bounds_measured"] = bounds
    meta = {"bounds": bounds}

    # ---- leg 1: the specification satisfies the property (exhaustive, small constants, class table from the code)
    b0 = bounds[0]
    if quick:
        mc = {"classes": cl, "sizes": ", ".join(map(str, sorted({0, b0, b0 + 1, limit, limit + 1}))), "maxids": 9, "maxlive": 3, "aux": "1"}
    else:
        mc = {"classes": cl, "sizes": ", ".join(map(str, sorted({0, b0, b0 + 1, limit, limit + 1}))), "maxids": 11, "maxlive": 3, "aux": "1"}
        # a second, smaller run in which a block may also come without an auxiliary allocation
        mc2 = {"classes": cl, "sizes": "%d, %d" % (b0, limit + 1), "maxids": 6, "maxlive": 3, "aux": "0, 1"}
        ctx.model_check("StrCache", ctx.write_cfg("MC_StrCache_aux", MC % mc2), workers=8, timeout=1500, heap="8g")
    r = ctx.model_check("StrCache", ctx.write_cfg("MC_StrCache", MC % mc), workers=8, timeout=1500, heap="8g")
    ctx.notes["model"] = {"distinct_states": r.distinct, "depth": r.depth, "constants": mc}

    # ---- leg 2: behaviours generated by TLC from the specification, executed on the real cache
    nontrivial, destroyed_in_use = set(), set()
    t, p = cfgs(bounds, "g")
    allsizes = ", ".join(map(str, boundary_sizes(bounds)))
    D = 5 if quick else 6                 # the first call of a behaviour constructs the cache object
    nopre = {"maxpre": 0, "presizes": "1", "fix": "0", "outn": limit + 50}
    unknown_under_global = set()
    elsewhere = {"bare": set(), "global": set()}     # executions releasing a buffer with a size of another class, by kind of cache

    def note_elsewhere(e, key):
        kind = None
        for l in e:
            kind = {"new": "bare", "gnew": "global"}.get(l[0], kind)
            if l[0] == "xdealloc":
                elsewhere[kind].add(key)
    for (lab, gen, sim, depth) in [
        ("bfs", {"classes": cl, "sizes": "%d, %d, %d" % (b0, b0 + 1, limit + 1), "maxlive": 3, "D": D,
                 "fsizes": "%d, %d" % (b0 + 1, limit + 50), "kinds": '"bare"', **nopre}, None, None),
        ("bfsg", {"classes": cl, "sizes": "%d, %d" % (b0, limit + 1), "maxlive": 3, "D": D,
                  "fsizes": "0", "kinds": '"global"', **nopre}, None, None),
        # strings that predate the global cache (one or two), destroyed / appended to / assigned to under it, with and without a
        # current test whose output string predates the cache; one ordinary size so that known and unknown releases interleave
        ("bfsp", {"classes": cl, "sizes": "%d" % b0, "maxlive": 2, "D": D + 1, "fsizes": "0", "kinds": '"global"',
                  "maxpre": 2, "presizes": "%d" % (b0 + 1), "fix": "0, 1", "outn": limit + 50}, None, None),
        ("sim", {"classes": cl, "sizes": allsizes, "maxlive": 8, "D": 40, "fsizes": "0, %d, %d, %d" % (b0, limit, limit + 50),
                 "kinds": '"bare", "global"', "maxpre": 3, "presizes": "1, %d, %d, %d" % (b0, b0 + 1, limit + 1), "fix": "0, 1",
                 "outn": limit + 50}, 30 if quick else 300, 160),
    ]:
        g = ctx.tlc("Gen_StrCache", ctx.write_cfg("Gen_StrCache_" + lab, GEN % gen), workers=8, simulate=sim, depth=depth, timeout=1800, heap="8g")
        execs = [[[st["op"], st["a"], st["n"]] for st in h] for h in g.beh]
        if not execs:
            raise Infra("no behaviours generated by " + lab)
        ctx.sample({"source": "TLC " + lab, "execution": ["\t".join(map(str, l)) for l in execs[ctx.rng.randrange(len(execs))]][:14]})
        conf(lab, execs, bounds, t, p, meta=meta, tlc_timeout=1800)
        ctx.evaluations += sum(len(e) for e in execs)
        for e in execs:
            if any(l[0] in ("dealloc", "xdealloc", "sdel", "foreign", "clearcache", "pdel", "pset", "pcat") for l in e) or held_at_destroy(e):
                nontrivial.add(json.dumps(e))
            note_elsewhere(e, json.dumps(e))
            if any(l[0] in ("pdel", "pset", "pcat") for l in e):
                unknown_under_global.add(json.dumps(e))
            if held_at_destroy(e):
                destroyed_in_use.add(json.dumps(e))

    # ---- leg 3: long seeded random histories on the real cache, validated against the specification
    nexec, nops = (8, 400) if quick else (50, 2000)
    execs = [random_exec(ctx.rng, nops, bounds, kind=("bare", "global")[i % 2], prestrings=(i % 4 == 1)) for i in range(nexec)]
    ctx.sample({"source": "seeded random driver", "execution": ["\t".join(map(str, l)) for l in execs[0][:14]]})
    conf("random", execs, bounds, t, p, meta=meta, tlc_timeout=2400)
    ctx.evaluations += sum(len(e) for e in execs)
    for e in execs:
        nontrivial.add(json.dumps(e[:60]))
        note_elsewhere(e, json.dumps(e[:60]))
        if held_at_destroy(e):
            destroyed_in_use.add(json.dumps(e[:60]))
        if any(l[0] in ("pdel", "pset", "pcat") for l in e):
            unknown_under_global.add(json.dumps(e[:60]))
    ctx.notes["executions_releasing_unknown_buffers_to_a_global_cache"] = len(unknown_under_global)
    if not unknown_under_global:
        raise Infra("no generated execution releases a buffer the cache does not know while a global cache is installed")
    ctx.notes["executions_releasing_a_buffer_with_a_size_of_another_class"] = {k: len(v) for k, v in elsewhere.items()}
    if not elsewhere["bare"] or not elsewhere["global"]:
        raise Infra("no generated execution releases a buffer with a size of another class (bare: %d, global: %d)"
                    % (len(elsewhere["bare"]), len(elsewhere["global"])))
    ctx.notes["executions_destroying_a_global_cache_with_buffers_in_use"] = len(destroyed_in_use)
    if not destroyed_in_use:
        raise Infra("no generated execution destroys a global cache while buffers are in use")
    return ctx.finish(
        rule="executions = TLC-generated behaviours of StrCache (exhaustive to depth D: a bare cache over 3 sizes, a global cache over 2 sizes; "
             "simulation to depth 40 over the sizes b-1, b, b+1 around every measured class bound, 0, 1, 1024, both kinds) plus seeded random "
             "histories (sizes 0..1024, alternately bare / global), each run on the real SimpleStringInternalCache (bare) or the real "
             "GlobalSimpleStringCache + SimpleStringCacheAllocator + SimpleString objects (global) over a recording allocator under ASan/UBSan; "
             "distinct = distinct call sequences; non-trivial = contains a release (with a size of its own or of another class), a foreign release, a clearCache, an operation on a "
             "string that predates the global cache, or the destruction of a global cache with buffers still in use",
        distinct_nontrivial=len(nontrivial), exhaustive=False,
        assumptions=["the class table (bounds %s) is measured from the code: class = maximal run of sizes a fresh cache keeps after release and serves with the same capacity" % bounds,
                     "a release names a buffer in use and any size: a size of the class the buffer was requested in is a proper release; a size of "
                     "another class (another cached class, or across the cached / non-cached border, either way) is a release of a buffer the cache "
                     "does not know there: the one-time warning, the buffer stays in use (and is released properly later or held to the end); "
                     "double releases are not generated",
                     "which idle block of the class is reused, and whether one is reused, is left to the implementation",
                     "destroyed = the GlobalSimpleStringCache (cache + adaptor + installation) goes away, with or without buffers in use; a bare "
                     "SimpleStringInternalCache leaves clearing to its owner: its destruction is only exercised after clearAll (its destructor "
                     "returns no block by itself, and its class table comes from the default malloc allocator, not the underlying one)",
                     "under a global cache the unknown releases are those of strings created before the cache (destroyed, assigned to, appended to "
                     "while it is installed), with the warning printed to the console or appended to a test output string that predates the cache "
                     "too (an unknown release while the warning is printed); every call the adaptor receives during such a script call is one "
                     "validated event; clearCache / clearAll of a global cache are not reachable from outside",
                     "a run that does not finish within 300 s or dies of a signal (stack exhaustion by a self-printing warning) is a divergence"])
