"""C12 - command line: every argv parsed safely; documented vectors yield the documented configuration and selection (CmdLine.tla)."""
import os, json
from vlib.conform import conform
from vlib.core import Infra
from bhelp import conform_all, chunk, log_of

CONST = """CONSTANTS
  XtDocumented = TRUE
  GChars = %(GChars)s
  NChars = %(NChars)s
  Nums = %(Nums)s
  BigNums = %(BigNums)s
  OpenNums = %(OpenNums)s
  WithMalformed = %(WithMalformed)s
"""
MC = "SPECIFICATION Spec\n" + CONST + "  MaxLen = %(MaxLen)s\nINVARIANTS IndexInBounds BoundedSteps AgreesWithMeaning\nPROPERTIES Progress Terminates\nCHECK_DEADLOCK FALSE\n"
GEN = "SPECIFICATION GSpec\n" + CONST + "CHECK_DEADLOCK FALSE\n"
# VERIF_C12_XT_OPEN=1 (self-tests only): leave the selection of a lone -xt/-xst open instead of demanding the help text's meaning
XT = "FALSE" if os.environ.get("VERIF_C12_XT_OPEN") == "1" else "TRUE"
TRACE = "SPECIFICATION %(spec)s\nCONSTANTS\n  XtDocumented = %(xt)s\n%(tail)s\nCHECK_DEADLOCK FALSE\n"
# counts / seeds are digit strings: Nums are written by Digits(), BigNums / OpenNums name texts of CmdLineLattice.NumText
# (inside / outside the documented range 1..2^32-1); the numeric vectors (LEN = "num") always use every text
BIG = dict(GChars="{65, 66}", NChars="{120, 121}", Nums="{3}", BigNums='{"007", "2^31", "2^32-1"}', OpenNums='{"2^32"}', WithMalformed="TRUE")
WORD_PAIRS_QUICK = 300
SMALL = dict(GChars="{65}", NChars="{120}", Nums="{3}", BigNums="{}", OpenNums="{}", WithMalformed="TRUE")


def enc(b):
    b = bytes(b)
    return b.hex() if b else "-"


def vec_line(tokens):
    return ["argv"] + [enc(t) for t in tokens]


# The millisecond clock is an input of parsing (a seedless -s takes its seed from it): readings the harness stubs it with.
# A general set: zero, small, the 31 / 32-bit edges, multiples of 2^32 and their neighbours, present-day epoch readings
# (odd / even), the top of the 64-bit range.  "real": the platform clock.
CLOCKS = [0, 1, 2, 1000, 2 ** 31 - 1, 2 ** 31, 2 ** 32 - 1, 2 ** 32, 2 ** 32 + 1, 2 ** 32 + 5, 2 ** 33, 3 * 2 ** 32, 417 * 2 ** 32,
          7 * 2 ** 32 + 123456789, 1790985801269, 1790985801270, 2 ** 63, 2 ** 64 - 2 ** 32, 2 ** 64 - 1]
CLOCK_P = 0.08          # share of the vectors in front of which the clock is set anew (it stays in force for the vectors that follow)


class ClockedVector(list):
    """An argument vector parsed at a given reading of the clock (decimal text)."""
    clock = None


def lines_of(v, rng=None):
    """Script lines of one vector: the `clock' line (its own reading, or - now and then - one drawn from CLOCKS) and the `argv' line."""
    c = getattr(v, "clock", None)
    if c is None and rng is not None and rng.random() < CLOCK_P:
        c = rng.choice(["real"] + [str(x) for x in CLOCKS])
    return ([["clock", c]] if c is not None else []) + [vec_line(v)]


def clock_in_force(ex, idx):
    for ln in reversed(ex[:idx]):
        if str(ln[0]) == "clock":
            return None if str(ln[1]) == "real" else str(ln[1])
        if str(ln[0]) == "reset":
            break
    return None


def show(tokens_hex):
    out = []
    for h in tokens_hex:
        b = b"" if h == "-" else bytes.fromhex(h)
        out.append("".join(chr(c) if 33 <= c < 127 and chr(c) not in "\\|" else ("_" if c == 32 else "\\x%02x" % c) for c in b) or "''")
    return "|".join(out)


def lone_xt(ln):
    """Is -xt / -xst the only filter option of the vector (script line)?"""
    toks = [b"" if h == "-" else bytes.fromhex(h) for h in ln[1:]]
    fopts = [t for t in toks if any(t.startswith(p) for p in (b"-g", b"-sg", b"-xg", b"-xsg", b"-n", b"-sn", b"-xn", b"-xsn", b"-t", b"-st", b"-xt", b"-xst",
                                                              b"TEST(", b"IGNORE_TEST("))]
    if len(fopts) == 1 and (fopts[0].startswith(b"-xt") or fopts[0].startswith(b"-xst")):
        return "-xst" if fopts[0].startswith(b"-xst") else "-xt"
    return None


def probe_line_of(tests):
    return ["probe"] + [x for t in tests for x in (enc(t["g"]), enc(t["n"]), "1" if t["ign"] else "0")]


def probe_log_of(ex, idx):
    """The log line of the probe registry in force at line idx of an execution (rebuilt from the script)."""
    for ln in reversed(ex[:idx]):
        ln = [str(x) for x in ln]
        if ln[0] == "probe":
            unhex = lambda h: [] if h == "-" else list(bytes.fromhex(h))
            return {"op": "probe", "tests": [{"g": unhex(ln[k]), "n": unhex(ln[k + 1]), "ign": ln[k + 2] == "1"} for k in range(1, len(ln) - 2, 3)]}
    return None


def make_key_fn(ctx, tcfg_open):
    def key_of(kind, ex, idx, observed):
        if idx >= len(ex):
            return kind + ":?"
        ln = [str(x) for x in ex[idx]]
        if ln[0] != "argv":
            return "%s:%s" % (kind, ln[0])
        probe_log = probe_log_of(ex, idx)
        # The one divergence class that needs a design decision gets a class key - but only if it is the ONLY thing wrong
        # with the line: the same log line is accepted when the specification leaves a lone -xt/-xst selection open.
        which = lone_xt(ln) if kind == "reject" and observed and observed.get("acc") else None
        if which and probe_log:
            one = os.path.join(ctx.work, "xtprobe.ndjson")
            with open(one, "w") as f:
                f.write(json.dumps(probe_log) + "\n" + json.dumps(observed) + "\n")
            try:
                ok, _, _ = ctx.validate_trace("Trace_CmdLine", tcfg_open, one, timeout=120)
            except Infra:
                ok = False
            if ok:
                return "reject:selection:lone-exclude-group.name:" + which
        # the clock is part of the input of a vector with a seedless -s
        clk = clock_in_force(ex, idx) if "2d73" in ln[1:] else None
        return ("%s:argv:%s" % (kind, show(ln[1:])))[:150] + ("@clock=%s" % clk if clk else "")
    return key_of


# ---------------------------------------------------------------- seeded random vectors (leg 3)
DOC_PIECES = ["-h", "-v", "-vv", "-c", "-p", "-b", "-lg", "-ln", "-ll", "-ri", "-f", "-e", "-ci", "-r", "-s", "-g", "-sg", "-xg", "-xsg", "-n", "-sn",
              "-xn", "-xsn", "-t", "-st", "-xt", "-xst", "-o", "-k", "TEST(", "IGNORE_TEST(", "junit", "teamcity", "normal", "eclipse"]


def rnd_ident(rng):
    return "".join(rng.choice("ABxyAB_z09") for _ in range(rng.choice([1, 1, 2, 3, 8])))


def rnd_number(rng, opt):
    """A count / seed of the documented range 1..2^32-1 as decimal text: small (the tests then run that often), around the
    31/32-bit edges, any ten-digit value (what the runner prints as its clock seed), with or without leading zeros."""
    r = rng.random()
    if r < (0.6 if opt == "-r" else 0.3):
        v = rng.choice([1, 2, 3, 7, 12, 40, 100])
    elif r < 0.75:
        v = rng.choice([2 ** 31 - 1, 2 ** 31, 2 ** 31 + 1, 2 ** 32 - 1, 2 ** 32 - 2, 3000000123, 10 ** 9, 101, 65536])
    elif r < 0.9:
        v = rng.randint(2 ** 31, 2 ** 32 - 1)
    else:
        v = rng.randint(1, 2 ** 32 - 1)
    t = str(v)
    if rng.random() < 0.15:
        t = "0" * rng.choice([1, 2, 10 - min(len(t), 9)]) + t
    return t


def rnd_doc_vector(rng):
    """A vector of the documented language with arbitrary identifier-like values, in any order and multiplicity."""
    v = []
    for _ in range(rng.randint(0, 7)):
        r = rng.random()
        if r < 0.35:
            v.append(rng.choice(["-v", "-vv", "-c", "-p", "-b", "-lg", "-ln", "-ll", "-ri", "-f", "-e", "-ci"]))
        elif r < 0.45:
            opt = rng.choice(["-r", "-s"])
            n = rnd_number(rng, opt)
            form = rng.random()
            if form < 0.4:
                v.append(opt + n)
            elif form < 0.8:
                v += [opt, n]
            else:
                v.append(opt)
                if rng.random() < 0.5:
                    v.append(rng.choice(["-v", "-c", "-b"]))         # an option follows: no count
        elif r < 0.7:
            opt = rng.choice(["-g", "-sg", "-xg", "-xsg", "-n", "-sn", "-xn", "-xsn"])
            val = rnd_ident(rng) if rng.random() < 0.5 else rng.choice(["A", "B", "AB", "x", "y", "xy", "ix"])
            v += [opt + val] if rng.random() < 0.5 else [opt, val]
        elif r < 0.85:
            opt = rng.choice(["-t", "-st", "-xt", "-xst"])
            val = rng.choice(["A", "B", "AB", rnd_ident(rng)]) + "." + rng.choice(["x", "y", "xy", rnd_ident(rng)])
            v += [opt + val] if rng.random() < 0.5 else [opt, val]
        elif r < 0.92:
            v.append(rng.choice(["TEST(", "IGNORE_TEST("]) + rng.choice(["A", "B", "AB", rnd_ident(rng)]) + ", " + rng.choice(["x", "y", "xy", rnd_ident(rng)]) + ")")
        elif r < 0.97:
            t = rng.choice(["normal", "eclipse", "junit", "teamcity"])
            v += ["-o" + t] if rng.random() < 0.6 else ["-o", t]
        else:
            p = rnd_ident(rng)
            v += ["-k" + p] if rng.random() < 0.5 else ["-k", p]
    return [t.encode("latin1") for t in v]


def word(rng, letters, lo, hi):
    return "".join(rng.choice(letters) for _ in range(rng.randint(lo, hi)))


IDENT_CHARS = "ABCDEFGHIJKLMNOPQRSTUVWXYZabcdefghijklmnopqrstuvwxyz0123456789_"


def rnd_registry(rng):
    """A probe registry for the substring meaning of the filters: a few filter texts (words over one to three identifier letters, so that
    a text often overlaps itself), and tests whose group / name is a random word or is built around a text: a partial occurrence of the
    text directly followed by (or overlapping) a real one, the text itself, the text with one letter changed or missing.
    -> (tests, group text pool, name text pool)"""
    def side():
        letters = rng.sample(IDENT_CHARS, rng.choice([1, 2, 2, 2, 3]))
        texts = [word(rng, letters, 2, 6) for _ in range(4)]
        def name():
            r = rng.random()
            q = rng.choice(texts)
            if r < 0.3:
                return word(rng, letters, 1, 8)
            if r < 0.7:          # near miss: prefix of the text + the text
                return word(rng, letters, 0, 2) + q[:rng.randrange(1, len(q))] + q + word(rng, letters, 0, 2)
            if r < 0.8:
                return q
            if r < 0.9:          # the text with one letter missing: no occurrence unless by chance
                k = rng.randrange(len(q))
                return word(rng, letters, 0, 2) + q[:k] + q[k + 1:] + word(rng, letters, 0, 2) or q
            return q + q[:rng.randrange(1, len(q))]
        names = [name() for _ in range(rng.randint(4, 7))]
        # filter texts: the texts, whole names (the strict forms then select something), pieces of names
        pool = texts + rng.sample(names, 2) + [n[a:a + rng.randint(1, 4)] or n for n in rng.sample(names, 2) for a in [rng.randrange(len(n))]]
        return names, pool
    gnames, gpool = side()
    nnames, npool = side()
    tests = [{"g": g.encode(), "n": n.encode(), "ign": rng.random() < 0.15} for g in gnames for n in nnames if rng.random() < 0.8]
    rng.shuffle(tests)
    return tests or [{"g": gnames[0].encode(), "n": nnames[0].encode(), "ign": False}], gpool, npool


def rnd_sel_vector(rng, gpool, npool):
    """One to three filter options of any kind with texts of the pools, attached or separated, sometimes beside another option."""
    parts = []
    for _ in range(rng.choice([1, 1, 1, 2, 2, 3])):
        r = rng.random()
        if r < 0.4:
            opt, val = rng.choice(["-g", "-sg", "-xg", "-xsg", "-g", "-xg"]), rng.choice(gpool)
        elif r < 0.8:
            opt, val = rng.choice(["-n", "-sn", "-xn", "-xsn", "-n", "-xn"]), rng.choice(npool)
        elif r < 0.94:
            opt, val = rng.choice(["-t", "-st", "-xt", "-xst", "-t"]), rng.choice(gpool) + "." + rng.choice(npool)
        else:
            parts.append([rng.choice(["TEST(", "IGNORE_TEST("]) + rng.choice(gpool) + ", " + rng.choice(npool) + ")"])
            continue
        parts.append([opt + val] if rng.random() < 0.5 else [opt, val])
    if rng.random() < 0.3:
        parts.insert(rng.randrange(len(parts) + 1), [rng.choice(["-ri", "-v", "-b", "-r2", "-c", "-r", "-s7", "-p"])])
    return [t.encode("latin1") for part in parts for t in part]


def rnd_wild_vector(rng):
    """Arbitrary bytes (no NUL), mutated documented tokens, truncated forms: only the safety clause applies."""
    v = []
    for _ in range(rng.randint(0, 6)):
        r = rng.random()
        if r < 0.3:
            v.append(bytes(rng.randrange(1, 256) for _ in range(rng.choice([0, 1, 2, 5, 17, 40]))))
        elif r < 0.6:
            t = rng.choice(DOC_PIECES).encode() + bytes(rng.choice(b"A.x,) (-09\xe9\x80") for _ in range(rng.randint(0, 6)))
            v.append(t)
        elif r < 0.66:
            # digit strings of any length and size after -r / -s (attached or separated), signs, zeros
            num = rng.choice(["", "-", "+"]) * (rng.random() < 0.2) + "".join(rng.choice("0123456789") for _ in range(rng.choice([1, 9, 10, 10, 11, 20, 25])))
            opt = rng.choice(["-r", "-s"])
            v += [(opt + num).encode()] if rng.random() < 0.5 else [opt.encode(), num.encode()]
        elif r < 0.8:
            t = bytearray(rng.choice(rnd_doc_vector(rng) or [b"-v"]))
            if t and rng.random() < 0.7:
                t[rng.randrange(len(t))] = rng.randrange(1, 256)
            v.append(bytes(t[:rng.randint(0, len(t))]) if rng.random() < 0.4 else bytes(t))
        else:
            v += rnd_doc_vector(rng)[:2]
    return v


def run(ctx):
    quick = ctx.quick
    exe = ctx.build_harness("cmdline", "asan")
    tcfg = ctx.write_cfg("Trace_CmdLine", TRACE % {"spec": "TSpec", "xt": XT, "tail": "INVARIANT TInv\nPOSTCONDITION Accepted"})
    tcfg_open = ctx.write_cfg("Trace_CmdLine_xtopen", TRACE % {"spec": "TSpec", "xt": "FALSE", "tail": "INVARIANT TInv\nPOSTCONDITION Accepted"})
    pcfg = ctx.write_cfg("Predict_CmdLine", TRACE % {"spec": "PSpec", "xt": XT, "tail": "INVARIANT Predict"})
    key_of = make_key_fn(ctx, tcfg_open)
    harness = lambda s, l: ctx.run([exe, s, l], timeout=60 if quick else 600)      # deadline: a hang of the real parser is a divergence

    if ctx.replay:
        rp = json.load(open(ctx.replay))
        if rp.get("trace_module") == "Trace_TestRun":       # a program of the -b / -r order leg
            from props import testrun_common as TR
            xe = ctx.build_harness("testrun", "asan", out="testrun_order")
            cap, maxset = TR.probe_constants(ctx, xe)
            return TR.replay(ctx, xe, cap, maxset, True, strict=True)
        ex = [l.split("\t") for l in rp["script"]]
        # an execution of lone -xt / -xst vectors was validated with that selection left open (see go())
        rcfg = tcfg_open if str((rp.get("meta") or {}).get("source", "")).endswith("_xt") else tcfg
        conform(ctx, "replay", [ex], harness, "Trace_CmdLine", rcfg, pcfg, key_of, meta=rp.get("meta"))
        return ctx.finish("replay of one recorded execution", 1)

    # ---- leg 1: the parser machine on every vector of <= MaxLen tokens (index in bounds, progress, termination, = Meaning) + laws
    mcc = dict(BIG); mcc["MaxLen"] = 2
    mc = ctx.write_cfg("MC_CmdLine", MC % mcc)
    r = ctx.model_check("MC_CmdLine", mc, workers=4, timeout=1500, heap="6g")
    ctx.notes["model"] = {"distinct_states": r.distinct, "depth": r.depth, "constants": mcc,
                          "laws": "attached=separated, flags commute/idempotent, -h wins, malformed => undoc, selection laws (ASSUME)"}

    nontrivial = set()
    nexec = 0
    probe_line = None

    def go(label, vectors=None, per=400, cfg=None, probe=None, groups=None):
        """Vectors whose only filter option is -xt/-xst are validated with that selection left open (everything else about them is
        still bound, and so is what every reading of the option agrees on: XtAgreed); the documented meaning of the lone option is confronted separately on two vectors (see below), so that the
        one known divergence class cannot stop the validation of the rest (conform gives up after three rejections)."""
        nonlocal nexec
        groups = groups or [(probe or probe_line, vectors)]          # (probe registry line, vectors run on it)
        for lab_, want_xt, c in ((label, False, cfg or tcfg), (label + "_xt", True, cfg or tcfg_open)):
            execs = [[pr] + [ln for v in part for ln in lines_of(v, ctx.rng)] for pr, vs in groups
                     for part in chunk([v for v in vs if bool(lone_xt(vec_line(v))) == want_xt], per)]
            if not execs:
                continue
            for lab in conform_all(ctx, lab_, execs, harness, "Trace_CmdLine", c, pcfg, key_of, meta={"source": lab_}):
                for e in log_of(ctx, lab):
                    if e.get("op") == "argv" and (not e.get("acc") or e.get("gf") or e.get("nf")):
                        nontrivial.add(json.dumps(e.get("tok")))
            nexec += len(execs)
        ctx.evaluations += sum(len(vs) for _, vs in groups)
        return [[groups[0][0]] + [vec_line(v) for v in groups[0][1][:12]]]

    # ---- leg 2: every vector of <= n tokens over the token alphabet, written by TLC
    plans = [(BIG, 0), (BIG, 1), (BIG, 2)] + ([] if quick else [(SMALL, 3)])
    allvec = []
    for consts, n in plans:
        gcfg = ctx.write_cfg("Gen_CmdLine_%d" % n, GEN % consts)
        outp = os.path.join(ctx.work, "vec%d.ndjson" % n)
        prob = os.path.join(ctx.work, "probe.ndjson")
        ctx.tlc("Gen_CmdLine", gcfg, workers=1, env={"OUT": outp, "PROBE": prob, "LEN": str(n)}, timeout=1500, heap="8g", count=False)
        vs = [[bytes(t) for t in json.loads(l)["tok"]] for l in open(outp) if l.strip()]
        if probe_line is None:
            tests = json.loads(open(prob).readline())["tests"]
            probe_line = probe_line_of(tests)
        allvec += vs
        ctx.notes.setdefault("vectors_by_length", {})[str(n)] = len(vs)
    if len(allvec) < 1000:
        raise Infra("only %d vectors generated" % len(allvec))
    ctx.rng.shuffle(allvec)
    ex = go("vectors", allvec)
    ctx.sample({"source": "TLC vectors (Gen_CmdLine)", "execution": [show(l[1:]) for l in ex[0][1:9]]})
    # ---- leg 2n: the numeric vectors written by TLC: -r / -s with every count / seed text (2^31-1, 2^31, ten digits, 2^32-1, leading zeros;
    #      zero, 2^32 and beyond) attached and separated, alone and next to one other token
    gcfg = ctx.write_cfg("Gen_CmdLine_num", GEN % BIG)
    outp = os.path.join(ctx.work, "vecnum.ndjson")
    clkp = os.path.join(ctx.work, "vecclock.ndjson")
    ctx.tlc("Gen_CmdLine", gcfg, workers=1, env={"OUT": outp, "CLOCKOUT": clkp, "PROBE": os.path.join(ctx.work, "probe.ndjson"), "LEN": "num"},
            timeout=600, heap="4g", count=False)
    numvec = [[bytes(t) for t in json.loads(l)["tok"]] for l in open(outp) if l.strip()]
    if len(numvec) < 200:
        raise Infra("only %d numeric vectors generated" % len(numvec))
    ctx.notes["numeric_vectors"] = len(numvec)
    ctx.rng.shuffle(numvec)
    ex = go("numbers", numvec, per=100)
    ctx.sample({"source": "TLC numeric vectors (Gen_CmdLine, LEN=num)", "execution": [show(l[1:]) for l in ex[0][1:9]]})
    # ---- leg 2c: the clock as an input, written by TLC: the vectors whose meaning involves the clock (a seedless -s alone, before / after one
    #      other token, before / after a seeded -s) and the seeded forms, each parsed and run at every clock reading of CmdLineLattice.Clocks
    clockvec = []
    for l in open(clkp):
        if l.strip():
            row = json.loads(l)
            v = ClockedVector(bytes(t) for t in row["tok"])
            v.clock = bytes(row["clock"]).decode()
            clockvec.append(v)
    if len(clockvec) < 200 or len({v.clock for v in clockvec}) < 8:
        raise Infra("only %d clock rows generated" % len(clockvec))
    ctx.notes["clock_rows"] = {"rows": len(clockvec), "readings": sorted({v.clock for v in clockvec}, key=int)}
    ctx.rng.shuffle(clockvec)
    ex = go("clock", clockvec, per=200)
    ctx.sample({"source": "TLC clock rows (Gen_CmdLine, ClockRows): vector @ clock reading",
                "execution": ["%s @ %s" % (show(vec_line(v)[1:]), v.clock) for v in clockvec[:8]]})

    # ---- leg 2w: the substring meaning of -g -n -t -xg -xn -xt (and the strict forms beside it) on WORDS: the registry holds one test for
    #      every pair of a group word and a name word of <= 4 letters over two letters each (900 tests), the vectors are every filter option
    #      with every word (pair of words) as text, attached and separated, and the TEST forms - so every way a text can lie in a name occurs
    #      (start, middle, end, repeated, overlapping itself, behind a partial occurrence of itself)
    wl = 4
    gcfg = ctx.write_cfg("Gen_CmdLine_words", GEN % BIG)
    outp = os.path.join(ctx.work, "vecwords.ndjson")
    prob = os.path.join(ctx.work, "probe_words.ndjson")
    ctx.tlc("Gen_CmdLine", gcfg, workers=1, env={"OUT": outp, "PROBE": prob, "LEN": "words", "WLEN": str(wl), "FLEN": str(wl)}, timeout=600, heap="4g", count=False)
    wtests = json.loads(open(prob).readline())["tests"]
    wvec = [[bytes(t) for t in json.loads(l)["tok"]] for l in open(outp) if l.strip()]
    one = [v for v in wvec if b"." not in b"".join(v) and b"(" not in b"".join(v)]      # -g / -n family: one word
    two = [v for v in wvec if not (b"." not in b"".join(v) and b"(" not in b"".join(v))]  # -t family and TEST forms: a pair of words
    if len(wtests) < 400 or len(one) < 400 or len(two) < 4000:
        raise Infra("word leg: %d tests, %d + %d vectors generated" % (len(wtests), len(one), len(two)))
    ctx.rng.shuffle(one)
    ctx.rng.shuffle(two)
    wprobe = probe_line_of(wtests)
    if quick:
        # quick tier: a one-word vector runs on the tests whose other half is a single letter (every group word x 2 names for the
        # -g family, 2 groups x every name word for the -n family); the pairs repeat what the single words cover exhaustively:
        # a seeded sample of them on the whole registry
        two = two[:WORD_PAIRS_QUICK]
        gside = probe_line_of([t for t in wtests if len(t["n"]) == 1])
        nside = probe_line_of([t for t in wtests if len(t["g"]) == 1])
        groups = [(gside, [v for v in one if v[0].startswith((b"-g", b"-sg", b"-xg", b"-xsg"))]),
                  (nside, [v for v in one if not v[0].startswith((b"-g", b"-sg", b"-xg", b"-xsg"))]), (wprobe, two)]
    else:
        groups = [(wprobe, one + two)]
    ctx.notes["word_leg"] = {"tests": len(wtests), "one_word_vectors": len(one), "two_word_vectors": len(two), "letters_per_word": wl}
    ex = go("words", groups=groups, per=150)
    ctx.sample({"source": "TLC word vectors on the word registry (Gen_CmdLine, LEN=words)", "execution": [show(l[1:]) for l in ex[0][1:9]]})
    # ---- leg 3w: seeded random registries and filter texts: words over a few identifier letters, test names built around the texts
    #      (near misses: a partial occurrence directly followed by, or overlapping, a real one), 1-3 filter options per vector
    nsel, persel = (40, 50) if quick else (600, 80)
    groups = []
    for _ in range(nsel):
        tests, gpool, npool = rnd_registry(ctx.rng)
        groups.append((probe_line_of(tests), [rnd_sel_vector(ctx.rng, gpool, npool) for _ in range(persel)]))
    ex = go("random_selection", groups=groups, per=persel)
    ctx.sample({"source": "seeded random registry + filter vectors", "registry": [show(ex[0][0][k:k + 2]) for k in range(1, min(len(ex[0][0]), 25), 3)],
                "execution": [show(l[1:]) for l in ex[0][1:9]]})

    # ---- leg 3: seeded random vectors: documented language with arbitrary identifier-like values; arbitrary bytes (safety only)
    ndoc, nwild = (3000, 3000) if quick else (50000, 50000)
    docs = [rnd_doc_vector(ctx.rng) for _ in range(ndoc)]
    ex = go("random_documented", docs)
    ctx.sample({"source": "seeded random documented vectors", "execution": [show(l[1:]) for l in ex[0][1:7]]})
    wild = [rnd_wild_vector(ctx.rng) for _ in range(nwild)]
    ex = go("random_bytes", wild)
    ctx.sample({"source": "seeded random byte vectors", "execution": [show(l[1:]) for l in ex[0][1:5]]})
    # the documented way to repeat an order: feed the seed the runner derived from the clock (and reports) back with -s
    def given(e):     # does the vector itself carry the configured seed?
        seed = bytes(e["seed"]).lstrip(b"0")
        return any(c.isdigit() and c.lstrip(b"0") == seed for t in e["tok"] for c in (bytes(t), bytes(t)[2:]))
    clock = []
    for lab in ("random_documented", "vectors"):
        for e in log_of(ctx, lab):
            if len(clock) < 20 and e.get("op") == "argv" and e.get("acc") and e.get("shuffle") and not given(e) and bytes(e["seed"]) not in clock:
                clock.append(bytes(e["seed"]))
    ctx.notes["clock_seeds_fed_back"] = len(clock)
    if clock:
        go("seed_feedback", [[b"-s" + c] for c in clock] + [[b"-s", c] for c in clock] + [[b"-b", b"-s", c, b"-v"] for c in clock[:5]])
    # the help text's meaning of a lone -xt / -xst, confronted on one vector each (class key, see fixes/C12-xt-exclusion-semantics.md)
    if XT == "TRUE":
        for k, v in enumerate(([b"-xt", b"A.x"], [b"-xstA.x"])):
            execs = [[probe_line, vec_line(v)]]
            for _ in conform_all(ctx, "lone_xt%d" % k, execs, harness, "Trace_CmdLine", tcfg, pcfg, key_of, meta={"source": "lone -xt"}):
                pass
    # the documented meaning of -b together with -r: every repetition runs backwards (execution order observed through TestRun.tla)
    from props import testrun_common as TR
    ctx.notes["order_programs"] = TR.order_leg(ctx, nontrivial)
    return ctx.finish(
        rule="executions = chunks of <= 400 argument vectors, each parsed by the real CommandLineArguments (getters logged) and run through the real "
             "CommandLineTestRunner (recording outputs / registry: the verbosity level and colour every created output holds at the start of every test run, "
             "test runs started, shuffleTests seeds, crash / rethrow switches; the millisecond clock stubbed with readings chosen by the script) on a probe registry (10 tests; the word registry: one test per pair of a group word and a name word of <= 4 letters "
             "over two letters; seeded random registries built around the filter texts) (ASan+UBSan build, tokens in exact-size heap blocks); "
             "vectors = every filter option with every word / pair of words as text on the word registry (pairs: a seeded sample in the quick tier) + every vector of <= 2 "
             "tokens over the token alphabet written by TLC + the numeric vectors (-r / -s with every count / seed text, attached and separated) + the clock rows "
             "(vectors with a seedless -s in every place x every clock reading of the specification) (<= 3 tokens over the reduced alphabet in the thorough tier) + seeded random documented "
             "vectors + seeded random byte vectors; meaning of each vector computed by TLC (Trace_CmdLine); distinct non-trivial = distinct vectors "
             "that were rejected or produced filters",
        distinct_nontrivial=len(nontrivial), exhaustive=False,
        assumptions=["documented language: exact flags, longest documented option name + attached or separated value, identifier-like values, "
                     "[IGNORE_]TEST(group, name) with ', ' separator; everything else is only required to be safe",
                     "repeat counts and shuffle seeds are decimal digit strings compared as digit sequences (leading zeros ignored); documented range 1..2^32-1 "
                     "(the unsigned values the runner itself derives from the clock and reports); 2^32 and more, -r0, a separated zero are left open; "
                     "an attached zero seed (-s0) must be rejected: the help text says the seed 'must be greater than 0' - the only value it declares invalid",
                     "selection follows C02's rule per filter list; a lone -xt/-xst is read as the help text states it (exclude tests whose group AND name match); "
                     "where that reading is left open (vectors validated beside the known finding) the tests of which both halves or neither half match are still bound",
                     "memory safety is observed by ASan/UBSan on the executed vectors; plugin arguments (-p<x>) only as 'no plugin accepts them'",
                     "time-based shuffle seed: any seed > 0 is accepted, for every reading of the clock (0, multiples of 2^32, ...); at one (stubbed) reading the "
                     "runner's parser and the parser read through the getters configure the same seed; order of execution is C02's subject (only run counts are compared)",
                     "what the run gets is read off recording outputs / a recording registry created through the runner's factory methods: one verbosity level "
                     "(-vv, with or without -v, is very verbose), colour, number of test runs, the seed of every shuffleTests call, crash / rethrow switches; "
                     "not bound: the JUnit half of a composite (files), anything but 'nothing starts, nothing is shuffled' in the list modes",
                     "the probe registry is not run for repeat counts above 100 (the configuration is still compared exactly)"],
        extra={"executions": nexec})
