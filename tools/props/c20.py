"""C20 - TeamCity output is a balanced, correctly escaped service-message stream (TeamCity.tla)."""
import os, json, sys
from vlib.conform import conform
from vlib.core import Infra
sys.path.insert(0, os.path.dirname(os.path.dirname(os.path.abspath(__file__))))
import teamcity_decode

MC = """SPECIFICATION Spec
CONSTANTS
  Names <- MCNames
  Files <- MCFiles
  Msgs <- MCMsgs
  Texts <- MCTexts
  Opts <- %(opts)sOpts
  NameAlpha = {%(na)s}
  NameLen = %(nl)d
  FileAlpha = {%(fa)s}
  FileLen = %(fl)d
  FileMin = %(fm)d
  MsgAlpha = {%(ma)s}
  MsgLen = %(ml)d
  LineNos = {%(lines)s}
  MaxGroups = %(mg)d
  MaxTests = %(mt)d
  MaxFails = %(mf)d
  MaxPrints = %(mp)d
  EscAlphabet = {97, 110, 114, 39, 124, 91, 93, 10, 13}
  EscLen = %(el)d
INVARIANTS TypeOK Balanced ScanIsFold ClosedAtEnd OpenMatchesPhase IgnoredFlagged RoundTrip
CHECK_DEADLOCK FALSE
"""
GEN = """SPECIFICATION GSpec
CONSTANTS
  Names <- GNames
  Files <- GFiles
  Msgs <- GMsgs
  Texts <- GTexts
  Opts <- %(opts)sOpts
  NameAlpha = {%(na)s}
  NameLen = %(nl)d
  FileAlpha = {%(fa)s}
  FileLen = %(fl)d
  FileMin = %(fm)d
  MsgAlpha = {%(ma)s}
  MsgLen = %(ml)d
  LineNos = {%(lines)s}
  MaxGroups = %(mg)d
  MaxTests = %(mt)d
  MaxFails = %(mf)d
  MaxPrints = %(mp)d
  D = %(D)d
INVARIANTS Dump
CHECK_DEADLOCK FALSE
"""
TRACE = """SPECIFICATION %(spec)s
CONSTANTS
  Names = {}
  Files = {}
  Msgs = {}
  Texts = {}
  Opts = {}
  LineNos = {}
  MaxGroups = 0
  MaxTests = 0
  MaxFails = 0
  MaxPrints = 0
%(tail)s
CHECK_DEADLOCK FALSE
"""
SPECIALS = [39, 124, 91, 93, 10, 13]          # ' | [ ] LF CR
NEEDS_ESC = set(SPECIALS)


def hx(codes):
    return bytes(codes).hex()


def beh_to_exec(h):
    return [[st["op"], hx(st["a"]), hx(st["b"]), hx(st["c"]), st["n"], st["k"]] for st in h]


def rstr(rng, lo, hi, special=0.35, forbid=(122,)):
    """printable ASCII with a high density of the characters the TeamCity rules single out"""
    n = rng.randint(lo, hi)
    out = []
    for _ in range(n):
        if rng.random() < special:
            out.append(rng.choice(SPECIALS))
        else:
            c = rng.randint(32, 126)
            while c in forbid:
                c = rng.randint(32, 126)
            out.append(c)
    return out


def rval(rng, hi, forbid=(122,)):
    """a value of any kind (group name, test name, path, message, printed text).  The empty string and the one-character strings
    are values like any other - and the ones a writer's `nothing stored yet' / `nothing to print' tests confuse with absence -
    so they get a fixed share instead of the 1/hi a uniform length would give them"""
    r = rng.random()
    if r < 0.12:
        return []
    if r < 0.27:
        return rstr(rng, 1, 1, forbid=forbid)
    return rstr(rng, 2, hi, forbid=forbid)


def random_exec(rng, max_groups, max_tests):
    ex = [["start", "", "", "", rng.randrange(6), rng.choice(["0", "0", "1"])]]     # n = run options: colour + 2 * verbosity
    run_ignored = ex[0][5] == "1"
    last = None
    for _ in range(rng.randint(0, max_groups)):
        g = rval(rng, 10)
        if g == last:               # the registry takes a change of name as the group boundary
            g = g + [103]
        last = g
        ex.append(["group", hx(g), "", "", 0, ""])
        files = [rval(rng, 14) for _ in range(2)]
        for _ in range(rng.randint(1, max_tests)):
            r = rng.random()
            name = rval(rng, 10)
            tfile = rng.choice(files)
            tline = rng.choice([0, 1, 7, 70, 1234, 99999])
            if r < 0.12:
                ex.append(["skip", hx([122] + name), hx(tfile), "", tline, rng.choice(["n", "i"])])
                continue
            kind = "i" if r < 0.32 else "n"
            ex.append(["test", hx(name), hx(tfile), "", tline, kind])
            if kind == "n" or run_ignored:
                for _ in range(rng.choice([0, 0, 1, 1, 2, 3])):
                    if rng.random() < 0.25:
                        ex.append(["print", hx(rval(rng, 12, forbid=(35,))), "", "", 0, ""])
                    else:
                        ffile = tfile if rng.random() < 0.5 else rng.choice(files + [rval(rng, 14)])
                        fline = rng.choice([tline, tline + 3, max(0, tline - 1), 5])
                        ex.append(["fail", hx(ffile), "", hx(rval(rng, 24)), fline, ""])
            ex.append(["endtest", "", "", "", 0, ""])
        ex.append(["endgroup", "", "", "", 0, ""])
    ex.append(["end", "", "", "", 0, ""])
    return ex


def long_exec(rng):
    """one group, one or two tests, with LONG values (100-400 bytes, specials sparse so that they land at many different offsets of
    whatever buffering the writer uses) in every field: name, group, file path, failure message, printed text"""
    def lstr(forbid=(122,)):
        return rstr(rng, 100, 400, special=rng.choice([0.01, 0.03, 0.1]), forbid=forbid)
    ex = [["start", "", "", "", rng.randrange(6), "0"], ["group", hx(lstr()), "", "", 0, ""]]
    for _ in range(rng.choice([1, 2])):
        tfile = lstr()
        ex.append(["test", hx(lstr()), hx(tfile), "", 12, "n"])
        ex.append(["print", hx(rstr(rng, 50, 300, special=0.05, forbid=(35,))), "", "", 0, ""])
        ex.append(["fail", hx(tfile if rng.random() < 0.5 else lstr()), "", hx(lstr()), 15, ""])
        ex.append(["endtest", "", "", "", 0, ""])
    ex += [["endgroup", "", "", "", 0, ""], ["end", "", "", "", 0, ""]]
    return ex


SWEEP_LENGTHS = [1000, 2000, 3000, 4000, 5000, 8000, 16000, 40000]


def dense(rng, n, phase, gap=2):
    """n bytes in which characters that need escaping are as dense as they get: `phase' letters, then a special character
    followed by 0..gap letters, again and again - escape pairs begin at every offset of the written value, so wherever a writer
    cuts, pads or re-buffers a value, a pair straddles that place in some value"""
    out = [rng.randint(97, 121) for _ in range(phase)]
    while len(out) < n:
        out.append(rng.choice(SPECIALS))
        out += [rng.randint(97, 121) for _ in range(rng.randint(0, gap))]
    return out[:n]


def sweep_execs(rng, lengths, name_limit):
    """length sweep: for every length n (geometric, 1 000 .. 40 000 bytes) one run whose failure message is n bytes dense in
    characters that need escaping and whose group name, test name, source path and failure path are (up to name_limit) that long
    as well.  No length is special to the check: a writer that limits, truncates or chunks a value anywhere in this range shows up"""
    out = []
    for n in lengths:
        m = min(n, name_limit)
        tfile = dense(rng, m, rng.randrange(3))
        out.append([["start", "", "", "", rng.randrange(6), "0"], ["group", hx(dense(rng, m, rng.randrange(3))), "", "", 0, ""],
                    ["test", hx(dense(rng, m, rng.randrange(3))), hx(tfile), "", 12, "n"],
                    ["fail", hx(tfile), "", hx(dense(rng, n, rng.randrange(3))), 15, ""],
                    ["fail", hx(dense(rng, m, rng.randrange(3))), "", hx(rstr(rng, n, n, special=0.02)), 3, ""],
                    ["endtest", "", "", "", 0, ""], ["endgroup", "", "", "", 0, ""], ["end", "", "", "", 0, ""]])
    return out


EDGE_VALUES = [[]] + [[c] for c in SPECIALS] + [[97], [32]]


def edge_execs():
    """boundary sweep: a run of three groups (the middle one carries the values under test, the outer ones are ordinary, so that
    whatever the reporter keeps from one group or test to the next is set before and needed after) in which ONE kind of value at a
    time - group name, test name, test path, failure path, failure message, printed text - is the empty string or a single
    character (each special character, a letter, a blank), for normal and ignored tests, with and without run-ignored mode; the
    run options (colour, verbosity) rotate through their six combinations from one run of the sweep to the next."""
    A, B, F, M = [65], [66], [102, 46, 99], [109, 115, 103]
    out = []
    for field in ("group", "name", "file", "ffile", "msg", "text"):
        for v in EDGE_VALUES:
            for kind in ("n", "i"):
                for ri in ("0", "1"):
                    val = {"group": [71], "name": [116], "file": F, "ffile": F, "msg": M, "text": [120]}
                    val[field] = v
                    if kind == "i" and ri == "0" and field in ("ffile", "msg", "text"):
                        continue        # an ignored test that is not run has no failures or prints: nothing new to sweep
                    body = kind == "n" or ri == "1"
                    ex = [["start", "", "", "", len(out) % 6, ri],
                          ["group", hx(A), "", "", 0, ""], ["test", hx([112]), hx(F), "", 3, "n"], ["endtest", "", "", "", 0, ""],
                          ["endgroup", "", "", "", 0, ""],
                          ["group", hx(val["group"]), "", "", 0, ""],
                          ["test", hx([98]), hx(F), "", 5, "n"], ["endtest", "", "", "", 0, ""],
                          ["test", hx(val["name"]), hx(val["file"]), "", 7, kind]]
                    if body:
                        ex.append(["print", hx(val["text"]), "", "", 0, ""])
                        ex.append(["fail", hx(val["ffile"]), "", hx(val["msg"]), 9, ""])
                    ex += [["endtest", "", "", "", 0, ""],
                           ["test", hx([99]), hx(F), "", 11, "n"], ["endtest", "", "", "", 0, ""],
                           ["endgroup", "", "", "", 0, ""],
                           ["group", hx(B), "", "", 0, ""], ["test", hx([113]), hx(F), "", 13, "i"], ["endtest", "", "", "", 0, ""],
                           ["endgroup", "", "", "", 0, ""], ["end", "", "", "", 0, ""]]
                    out.append(ex)
    return out


def nontrivial(ex):
    """a run that exercises something beyond plain passing tests with plain names"""
    for l in ex:
        if l[0] in ("fail", "skip") or (l[0] == "test" and l[5] == "i"):
            return True
        if l[0] in ("group", "test") and (l[1] == "" or NEEDS_ESC & set(bytes.fromhex(l[1]))):
            return True
    return False


def key_fn(kind, ex, idx, observed):
    op = ex[idx][0] if 0 <= idx < len(ex) else "?"
    if kind == "reject" and op == "fail":
        t = None
        for l in ex[:idx]:
            if l[0] == "test":
                t = l
        if t is not None:
            helper = (ex[idx][1] != t[2]) or (int(ex[idx][4]) < int(t[4]))
            tf = set(bytes.fromhex(t[2]))
            if helper and (tf & NEEDS_ESC):
                return "reject:fail:helper-form:test-file-name-needs-escaping"
            return "reject:fail:" + ("helper-form" if helper else "plain-form")
    # the class of the failing input: an empty group / test name is a class of its own (a writer that takes "" for `none')
    g = t = None
    for l in ex[:idx + 1] if 0 <= idx < len(ex) else []:
        if l[0] == "group":
            g, t = l, None
        elif l[0] == "test":
            t = l
    if kind == "reject" and op in ("group", "endgroup") and g is not None and g[1] == "":
        return "reject:%s:empty-group-name" % op
    if kind == "reject" and op in ("test", "endtest") and t is not None and t[1] == "":
        return "reject:%s:empty-test-name" % op
    return "%s:%s" % (kind, op)


def run(ctx):
    quick = ctx.quick
    exe = ctx.build_harness("outputs", "asan")

    def run_harness(script, logp):
        cap = logp + ".capture"
        rc, out, to = ctx.run([exe, "teamcity", script, cap], timeout=600)
        from vlib.conform import read_log
        lines = teamcity_decode.capture_to_log(read_log(cap))
        with open(logp, "w") as f:
            for l in lines:
                f.write(json.dumps(l) + "\n")
        return rc, out, to

    tcfg = ctx.write_cfg("Trace_TeamCity", TRACE % {"spec": "TSpec", "tail": "INVARIANT TInv\nPOSTCONDITION Accepted"})
    pcfg = ctx.write_cfg("Predict_TeamCity", TRACE % {"spec": "PSpec", "tail": "INVARIANT Predict"})

    if ctx.replay:
        rp = json.load(open(ctx.replay))
        ex = [l.split("\t") for l in rp["script"]]
        conform(ctx, "replay", [ex], run_harness, "Trace_TeamCity", tcfg, pcfg, key_fn)
        return ctx.finish("replay of one recorded execution", 1)

    # ---- leg 1: the reporter design has the property (exhaustive over small runs; escaping theorem over all short strings)
    # names always range over the empty string as well; "structure" spends its size on the run (2 groups x 2 tests), "strings" on the values
    mcs = [("structure", {"na": "39", "nl": 1, "fa": "102", "fl": 1, "fm": 1, "ma": "93", "ml": 1, "lines": "3", "mg": 2, "mt": 2,
                          "mf": 1 if quick else 2, "mp": 0, "el": 4 if quick else 5, "opts": "Plain"}),
           ("strings", {"na": "97, 39", "nl": 1 if quick else 2, "fa": "102, 124", "fl": 1 if quick else 2, "fm": 0, "ma": "93, 10", "ml": 1,
                        "lines": "3, 12", "mg": 1, "mt": 1, "mf": 1, "mp": 1, "el": 2, "opts": "Plain"}),
           # every combination of the run options that reach a reporter (colour, three verbosity levels)
           ("options", {"na": "39", "nl": 1, "fa": "102", "fl": 1, "fm": 1, "ma": "93", "ml": 1, "lines": "3", "mg": 1 if quick else 2, "mt": 2,
                        "mf": 1, "mp": 1, "el": 2, "opts": "All"})]
    ctx.notes["model"] = []
    for lab, c in mcs:
        mc = ctx.write_cfg("MC_TeamCity_" + lab, MC % c)
        r = ctx.model_check("MC_TeamCity", mc, workers=8, timeout=1500, heap="8g")
        ctx.notes["model"].append({"config": lab, "distinct_states": r.distinct, "depth": r.depth, "constants": c,
                                   "escaping_theorem": "Unesc(Esc(s)) = s, WireSafe(Esc(s)), Esc injective: all strings of length <= %d over 9 bytes" % c["el"]})

    # ---- leg 2: complete runs generated by TLC from the specification, executed through the real registry and reporter
    nontriv = set()
    # every configuration's name domain contains the empty name (and one-character names); paths, messages and texts contain the
    # empty string wherever fm / ml allow it
    gens = [
        ("bfs1", {"na": "39" if quick else "97, 39", "nl": 1, "fa": "93" if quick else "102, 93", "fl": 1, "fm": 0, "ma": "124", "ml": 1,
                  "lines": "3, 12", "mg": 1, "mt": 1, "mf": 1, "mp": 1, "D": 12, "opts": "Plain"}, None, None),
        # the run options (colour on / off x quiet / verbose / very verbose) are part of every run: all six, exhaustively on one group
        ("bfs-options", {"na": "39", "nl": 1, "fa": "93", "fl": 1, "fm": 1, "ma": "124", "ml": 1, "lines": "3", "mg": 1, "mt": 1 if quick else 2,
                         "mf": 1, "mp": 1, "D": 14, "opts": "All"}, None, None),
        ("bfs2", {"na": "39", "nl": 1, "fa": "93", "fl": 1, "fm": 1, "ma": "124", "ml": 0, "lines": "3", "mg": 2, "mt": 1 if quick else 2,
                  "mf": 1, "mp": 0, "D": 24, "opts": "Plain"}, None, None),
        ("bfs3", {"na": "39", "nl": 1, "fa": "93", "fl": 1, "fm": 1, "ma": "124", "ml": 0, "lines": "3", "mg": 1, "mt": 3 if quick else 4,
                  "mf": 1, "mp": 0, "D": 24, "opts": "Plain"}, None, None),
        ("sim", {"na": "97, 39, 124", "nl": 2, "fa": "102, 91", "fl": 2, "fm": 0, "ma": "109, 93, 10, 13", "ml": 2, "lines": "0, 12",
                 "mg": 6, "mt": 4, "mf": 3, "mp": 1, "D": 40, "opts": "All"}, 6 if quick else 60, 60),
    ]
    for lab, c, sim, depth in gens:
        gcfg = ctx.write_cfg("Gen_TeamCity_" + lab, GEN % c)
        g = ctx.tlc("Gen_TeamCity", gcfg, workers=8, simulate=sim, depth=depth, timeout=1500, heap="8g")
        execs = [beh_to_exec(h) for h in g.beh]
        if not execs:
            raise Infra("no behaviours generated by " + lab)
        ctx.sample({"source": "TLC " + lab, "execution": ["\t".join(map(str, l)) for l in execs[ctx.rng.randrange(len(execs))]][:14]})
        conform(ctx, lab, execs, run_harness, "Trace_TeamCity", tcfg, pcfg, key_fn, tlc_timeout=1500)
        ctx.evaluations += sum(len(e) for e in execs)
        for e in execs:
            if nontrivial(e):
                nontriv.add(json.dumps(e))

    # ---- leg 3: seeded random runs (up to 30 groups, every printable character, specials dense in every field)
    nexec, mg, mt = (40, 10, 4) if quick else (300, 30, 6)
    execs = [random_exec(ctx.rng, mg, mt) for _ in range(nexec)]
    ctx.sample({"source": "seeded random driver", "execution": ["\t".join(map(str, l)) for l in execs[0][:14]]})
    conform(ctx, "random", execs, run_harness, "Trace_TeamCity", tcfg, pcfg, key_fn, tlc_timeout=1500)
    ctx.evaluations += sum(len(e) for e in execs)
    for e in execs:
        if nontrivial(e):
            nontriv.add(json.dumps(e))
    # boundary sweep: one kind of value at a time empty or a single character, inside a run whose other groups and tests are ordinary
    execs = edge_execs()
    ctx.sample({"source": "boundary sweep (one value empty / one character)", "execution": ["\t".join(map(str, l)) for l in execs[0][:14]]})
    conform(ctx, "edge-values", execs, run_harness, "Trace_TeamCity", tcfg, pcfg, key_fn, tlc_timeout=1500)
    ctx.evaluations += sum(len(e) for e in execs)
    for e in execs:
        nontriv.add(json.dumps(e))
    # long values: a seeded change that buffered escaped output in 128-byte chunks and lost the second byte of an escape pair at a
    # chunk boundary went unnoticed while every generated value was shorter than 25 bytes
    execs = [long_exec(ctx.rng) for _ in range(8 if quick else 80)]
    conform(ctx, "long-values", execs, run_harness, "Trace_TeamCity", tcfg, pcfg, key_fn, tlc_timeout=1500)
    ctx.evaluations += sum(len(e) for e in execs)
    for e in execs:
        nontriv.add(json.dumps(e)[:400])
    # ... and no bound on the length is part of the statement: a geometric sweep of lengths up to 40 000 bytes
    execs = sweep_execs(ctx.rng, SWEEP_LENGTHS, 2000) if quick else [e for _ in range(3) for e in sweep_execs(ctx.rng, SWEEP_LENGTHS, 40000)]
    conform(ctx, "length-sweep", execs, run_harness, "Trace_TeamCity", tcfg, pcfg, key_fn, tlc_timeout=1500, heap="8g")
    ctx.evaluations += sum(len(e) for e in execs)
    for e in execs:
        nontriv.add(json.dumps(e)[:400])
    return ctx.finish(
        rule="executions = complete runs (registry callbacks start..end) generated by TLC from TeamCity.tla (exhaustive for 1 group x 1 test and "
             "2 groups x 2-3 tests over small alphabets that always contain the empty string, all 6 combinations of the run options colour x "
             "verbosity exhaustively on 1 group, simulation up to 6 groups), a boundary sweep (each kind of "
             "value empty / one character), a length sweep (values of 1 000 .. 40 000 bytes dense in characters that need escaping) plus seeded "
             "random runs of up to 10/30 groups with random run options, each executed by "
             "the real TestRegistry on the real TeamCityTestOutput; the captured bytes are decoded by tools/teamcity_decode.py and the per-callback "
             "log is validated by TLC; distinct = distinct scripts; non-trivial = has a failure, an ignored or filtered-out test, or a name that needs escaping",
        distinct_nontrivial=len(nontriv), exhaustive=False,
        assumptions=["names, paths, messages and printed texts are byte strings (the empty string and one-character strings included, in TLC-generated runs, "
                     "the boundary sweep and the random driver) over printable ASCII plus CR and LF; test names contain no 'z' (the harness filters on it)",
                     "text printed by tests does not itself contain ##teamcity[",
                     "the run options that reach the reporter are colour on/off and the three verbosity levels; the free text around the messages "
                     "(progress, very-verbose chatter, coloured summary) is not checked",
                     "the wording of the location text is not specified, only that it ends with <failure file>:<line> and names <test file>:<line> when that differs",
                     "the duration value is not checked beyond being safely escaped"])
