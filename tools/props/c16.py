"""C16 - JUnit report is well-formed XML and faithful to the run (JUnit.tla)."""
import os, json, sys
from vlib.conform import conform, read_log
from vlib.core import Infra
sys.path.insert(0, os.path.dirname(os.path.dirname(os.path.abspath(__file__))))
import junit_project

CONSTS = """  Names <- %(P)sNames
  Files <- %(P)sFiles
  Msgs <- %(P)sMsgs
  Texts <- %(P)sTexts
  Pkgs <- %(P)sPkgs
  Opts <- %(opts)sOpts
  MaxRuns = %(mr)d
  MaxSets = %(ms)d
  NameAlpha = {%(na)s}
  NameLen = %(nl)d
  FileAlpha = {%(fa)s}
  FileLen = %(fl)d
  MsgAlpha = {%(ma)s}
  MsgLen = %(ml)d
  PkgAlpha = {%(pa)s}
  PkgLen = %(pl)d
  LineNos = {%(lines)s}
  MaxGroups = %(mg)d
  MaxTests = %(mt)d
  MaxFails = %(mf)d
  MaxPrints = %(mp)d
"""
MC = "SPECIFICATION Spec\nCONSTANTS\n" + CONSTS + """  EncAlphabet = {97, 38, 34, 60, 62, 39, 10, 13, 93, 59, 35}
  EncLen = %(el)d
INVARIANTS TypeOK OneFilePerGroup NoOverwrite LastContentFaithful SuiteCountsTrue CasesFaithful OutputFaithful WellFormedRoundTrip FileNamesOK BookkeepingOK
CHECK_DEADLOCK FALSE
"""
GEN = "SPECIFICATION GSpec\nCONSTANTS\n" + CONSTS + """  D = %(D)d
  RunIgnModes = {%(ri)s}
INVARIANTS Dump
CHECK_DEADLOCK FALSE
"""
TRACE = """SPECIFICATION %(spec)s
CONSTANTS
  Names = {}
  Files = {}
  Msgs = {}
  Texts = {}
  Pkgs = {}
  Opts = {}
  MaxRuns = 0
  MaxSets = 0
  LineNos = {}
  MaxGroups = 0
  MaxTests = 0
  MaxFails = 0
  MaxPrints = 0
%(tail)s
CHECK_DEADLOCK FALSE
"""
XML_SPECIALS = [38, 60, 62, 34, 39, 10, 13]            # & < > " ' LF CR
ATTR_BREAKERS = {38, 60, 34, 10, 13}                   # what an unescaped attribute value cannot carry unchanged
FNAME_ILLEGAL = [47, 92, 63, 37, 42, 58, 124, 34, 60, 62]


def hx(codes):
    return bytes(codes).hex()


def beh_to_exec(h):
    return [[st["op"], hx(st["a"]), hx(st["b"]), hx(st["c"]), st["n"], st["k"]] for st in h]


def rstr(rng, lo, hi, special=0.3, extra=()):
    n = rng.randint(lo, hi)
    out = []
    while len(out) < n:
        r = rng.random()
        if r < special:
            out.append(rng.choice(XML_SPECIALS))
        elif r < special + 0.05:
            out += [93, 93, 62]                          # ]]>
        elif r < special + 0.10:
            out += rng.choice([[38, 97, 109, 112, 59], [38, 35, 49, 48, 59], [38, 108, 116]])   # text that looks like a reference
        elif extra and r < special + 0.25:
            out.append(rng.choice(extra))
        else:
            c = rng.randint(32, 126)
            out.append(c if c != 122 else 121)
    return out


def long_exec(rng):
    """one group with one or two tests whose names, paths, messages and printed text are LONG (100-400 bytes, sparse specials landing at
    many offsets); the group / package names stay short because they become the file name"""
    def lstr(extra=()):
        return rstr(rng, 100, 400, special=rng.choice([0.01, 0.03, 0.1]), extra=extra)
    ex = [["start", hx(rstr(rng, 1, 6, extra=FNAME_ILLEGAL)), "", "", 0, "0"], ["group", hx(rstr(rng, 1, 12, extra=FNAME_ILLEGAL)), "", "", 0, ""]]
    for _ in range(rng.choice([1, 2])):
        tfile = lstr(extra=[47, 46])
        ex.append(["test", hx(lstr()), hx(tfile), "", 12, "n"])
        ex.append(["print", hx(rstr(rng, 50, 300, special=0.05)), "", "", 0, ""])
        ex.append(["fail", hx(tfile if rng.random() < 0.5 else lstr()), "", hx(lstr()), 15, ""])
        ex.append(["endtest", "", "", "", 0, ""])
    ex += [["endgroup", "", "", "", 0, ""], ["end", "", "", "", 0, ""]]
    return ex


SWEEP_LENGTHS = [1000, 2000, 3000, 4000, 5000, 8000, 16000, 40000]


def dense(rng, n, phase, gap=2):
    """n bytes in which characters that need escaping are as dense as they get: `phase' letters, then a special character
    followed by 0..gap letters, again and again - in the written form, references of every length (4, 5, 6 bytes) begin at
    every offset, so wherever a writer cuts, pads or re-buffers a value, a reference straddles that place in some value"""
    out = [rng.randint(97, 121) for _ in range(phase)]
    while len(out) < n:
        out.append(rng.choice(XML_SPECIALS))
        out += [rng.randint(97, 121) for _ in range(rng.randint(0, gap))]
    return out[:n]


def sweep_execs(rng, lengths, name_limit):
    """length sweep: for every length n (geometric, 1 000 .. 40 000 bytes) one run whose failure message and printed text are n
    bytes dense in characters that need escaping, and whose test name, source path, failure path (and, up to name_limit, group
    and package name) are that long as well; a second message of n bytes is sparse in specials (written length ~ n).  No length
    is special to the check: a writer that limits, truncates or chunks a value anywhere in this range shows up"""
    out = []
    for n in lengths:
        m = min(n, name_limit)
        short = lambda: rstr(rng, 1, 8)
        grp = dense(rng, m, rng.randrange(6)) if n <= name_limit else rstr(rng, 1, 10, extra=FNAME_ILLEGAL)
        pkg = dense(rng, m // 2, rng.randrange(6)) if n <= name_limit and rng.random() < 0.5 else rstr(rng, 0, 6, extra=FNAME_ILLEGAL)
        ex = [["start", hx(pkg), "", "", rng.randrange(6), "0"], ["group", hx(grp), "", "", 0, ""]]
        tfile = rstr(rng, 1, 14, extra=[47, 46])
        ex += [["test", hx(short()), hx(tfile), "", 12, "n"],
               ["print", hx(dense(rng, n, rng.randrange(6))), "", "", 0, ""],
               ["fail", hx(tfile), "", hx(dense(rng, n, rng.randrange(6))), 15, ""],
               ["endtest", "", "", "", 0, ""]]
        tfile = dense(rng, m, rng.randrange(6))
        ex += [["test", hx(dense(rng, m, rng.randrange(6))), hx(tfile), "", 7, "n"],
               ["fail", hx(dense(rng, m, rng.randrange(6))), "", hx(rstr(rng, n, n, special=0.02)), 3, ""],
               ["endtest", "", "", "", 0, ""],
               ["endgroup", "", "", "", 0, ""], ["end", "", "", "", 0, ""]]
        out.append(ex)
    return out


def random_exec(rng, max_groups, max_tests, filtered=0.0, reporter_life=False):
    """filtered = share of the tests that a name filter keeps from running (names containing 'z': the harness installs the
    filter "everything but z"; rstr never produces a z); with a filter, about a quarter of the groups have no running test.
    Every run gets run options (colour, verbosity) at random.  reporter_life: the reporter is used as an object with a life of
    its own - setPackageName and createFileName calls wherever no group is open (before the first group, between two groups,
    after the last, between two runs, after the last run), and up to three runs served by one reporter (a later run repeats
    the tests of the first, as with -r, or brings its own)."""
    pkg = [] if rng.random() < 0.4 else rstr(rng, 1, 8, extra=FNAME_ILLEGAL)
    ex = [["start", hx(pkg), "", "", rng.randrange(6), rng.choice(["0", "0", "1"])]]
    runs = rng.choice([1, 2, 2, 3]) if reporter_life else 1
    groups_seen = []

    def mid():
        while reporter_life and rng.random() < 0.35:
            if rng.random() < 0.6:
                ex.append(["setpkg", hx([] if rng.random() < 0.25 else rstr(rng, 1, 8, extra=FNAME_ILLEGAL)), "", "", 0, ""])
            else:
                g = rng.choice(groups_seen) if groups_seen and rng.random() < 0.5 else rstr(rng, 1, 10, extra=FNAME_ILLEGAL)
                ex.append(["fname", hx(g), "", "", 0, ""])

    first = None
    for r in range(runs):
        if r > 0:
            mid()
            ex.append(["restart", "", "", "", 0, rng.choice(["0", "0", "1"])])
        run_ignored = ex[-1][5] == "1"
        if first is not None and first[0] == run_ignored and rng.random() < 0.5:
            groups = first[1]                            # the same tests again
        else:
            groups = run_groups(rng, max_groups, max_tests, filtered, run_ignored)
        if first is None:
            first = (run_ignored, groups)
        for g in groups:
            mid()
            groups_seen.append(bytes.fromhex(g[0][1]))
            ex.extend(g)
        mid()
        ex.append(["end", "", "", "", 0, ""])
    mid()
    return ex


def run_groups(rng, max_groups, max_tests, filtered, run_ignored):
    """the groups of one run: a list of lists of script lines (group ... endgroup)"""
    groups = []
    used = set()
    for _ in range(rng.randint(0, max_groups)):
        g = rstr(rng, 1, 10, extra=FNAME_ILLEGAL)
        while bytes(g) in used:                          # one group = one run of consecutive tests (hypothesis of the property)
            g = g + [103]
        used.add(bytes(g))
        ex = [["group", hx(g), "", "", 0, ""]]
        files = [rstr(rng, 1, 14, extra=[47, 46]) for _ in range(2)]
        pskip = 0.0 if not filtered else (1.0 if rng.random() < 0.25 else filtered)
        for _ in range(rng.randint(1, max_tests)):
            name = rstr(rng, 1, 10)
            tfile = rng.choice(files)
            tline = rng.choice([0, 1, 7, 70, 1234, 99999])
            kind = "i" if rng.random() < 0.25 else "n"
            if rng.random() < pskip:
                name.insert(rng.randint(0, len(name)), 122)
                ex.append(["skip", hx(name), hx(tfile), "", tline, kind])
                continue
            ex.append(["test", hx(name), hx(tfile), "", tline, kind])
            if kind == "n" or run_ignored:
                for _ in range(rng.choice([0, 0, 1, 1, 2, 3])):
                    if rng.random() < 0.3:
                        ex.append(["print", hx(rstr(rng, 0, 14)), "", "", 0, ""])
                    else:
                        ffile = tfile if rng.random() < 0.5 else rng.choice(files + [rstr(rng, 1, 14)])
                        ex.append(["fail", hx(ffile), "", hx(rstr(rng, 0, 24)), rng.choice([tline, tline + 3, 5]), ""])
            ex.append(["endtest", "", "", "", 0, ""])
        ex.append(["endgroup", "", "", "", 0, ""])
        groups.append(ex)
    return groups


def nontrivial(ex):
    for l in ex:
        if l[0] in ("fail", "print", "skip") or (l[0] == "test" and l[5] == "i"):
            return True
        if l[0] in ("group", "test", "start") and set(XML_SPECIALS + FNAME_ILLEGAL) & set(bytes.fromhex(l[1])):
            return True
    return False


def fname_ok(d, pkg, group):
    """FileNameOK of JUnit.tla"""
    raw = b"cpputest_" + (pkg + b"_" if pkg else b"") + group
    portable = set(b"0123456789abcdefghijklmnopqrstuvwxyzABCDEFGHIJKLMNOPQRSTUVWXYZ-._")
    return len(d) == len(raw) + 4 and d.endswith(b".xml") and all(
        x not in FNAME_ILLEGAL and (r not in portable or x == r) for x, r in zip(d, raw))


def key_fn(kind, ex, idx, observed):
    """key = which clause of the statement the rejected call contradicts (for a rejected document: what is wrong with it)"""
    op = ex[idx][0] if 0 <= idx < len(ex) else "?"
    # the package and the run-ignored mode in force at the rejected call; has the reporter had a life before this run / group?
    pkg, ri, life = b"", False, ""
    for l in ex[:max(idx, 0)]:
        if l[0] == "start":
            pkg, ri = bytes.fromhex(l[1]), l[5] == "1"
        elif l[0] == "restart":
            ri, life = l[5] == "1", ":reporter-reused-or-package-changed"
        elif l[0] == "setpkg":
            pkg, life = bytes.fromhex(l[1]), ":reporter-reused-or-package-changed"
        elif l[0] == "fname":
            life = ":reporter-reused-or-package-changed"
    if kind == "reject" and op == "fname":
        return "reject:fname" + life
    if kind == "reject" and op == "endgroup":
        g = max(i for i in range(idx) if ex[i][0] == "group")
        group = bytes.fromhex(ex[g][1])
        tests, attrs, longest = [], [pkg, group], 0
        for l in ex[g:idx]:
            longest = max([longest] + [len(x) // 2 for x in l[1:4]])
            if l[0] == "test":
                ign = l[5] == "i" and not ri
                tests.append({"name": bytes.fromhex(l[1]), "file": bytes.fromhex(l[2]), "line": int(l[4]), "ign": ign, "fails": 0, "msgs": []})
                attrs += [tests[-1]["name"], tests[-1]["file"]]
            elif l[0] == "fail":
                tests[-1]["fails"] += 1
                tests[-1]["msgs"].append(bytes.fromhex(l[3]))
                attrs.append(bytes.fromhex(l[1]))
        special = any(ATTR_BREAKERS & set(v) for v in attrs)
        long_ = ":value-of-1000-bytes-or-more" if longest >= 1000 else ""
        doc = (observed or {}).get("doc") or {}
        if not tests:                                    # a group none of whose tests ran (all filtered out)
            if (observed or {}).get("nfiles", 0) > 1:
                return "reject:endgroup:group-without-running-test:several-files"
            if not doc.get("wellformed") or not doc.get("closed"):
                return "reject:endgroup:group-without-running-test:ill-formed-xml"
            return "reject:endgroup:group-without-running-test:written-to-the-file-of-a-group-that-ran"
        if not doc.get("wellformed"):
            if long_:
                return "reject:endgroup:ill-formed-xml" + long_
            return "reject:endgroup:ill-formed-xml" + (":name-or-path-with-xml-special-in-attribute" if special else "")
        cases = doc.get("cases", [])
        names_differ = bytes(doc["suite"]["name"]) != group or len(cases) != len(tests) or \
            any(bytes(c["name"]) != t["name"] or bytes(c["file"]) != t["file"] for c, t in zip(cases, tests))
        if names_differ and special and not long_:
            return "reject:endgroup:name-changed:name-or-path-with-xml-special-in-attribute"
        if not doc.get("structure") or len(cases) != len(tests) or names_differ or any(c["line"] != t["line"] for c, t in zip(cases, tests)):
            return "reject:endgroup:test-case-elements" + long_
        if doc["suite"]["tests"] != len(tests):
            return "reject:endgroup:suite-test-count"
        if doc["suite"]["failures"] != sum(1 for t in tests if t["fails"]):
            return "reject:endgroup:suite-failure-count"
        if any(c["skipped"] != t["ign"] for c, t in zip(cases, tests)):
            return "reject:endgroup:skipped-marker"
        if any(c["failed"] != (t["fails"] > 0) for c, t in zip(cases, tests)):
            return "reject:endgroup:failure-element"
        if any(c["failed"] and not any(bytes(c["message"]).endswith(m) for m in t["msgs"]) for c, t in zip(cases, tests)):
            return "reject:endgroup:failure-message" + long_
        if (observed or {}).get("nfiles", 0) != 1 or not fname_ok(bytes(doc.get("fname", [])), pkg, group):
            return "reject:endgroup:file-name" + life
        return "reject:endgroup:captured-output-or-raw-text" + long_
    return "%s:%s" % (kind, op)


def run(ctx):
    quick = ctx.quick
    exe = ctx.build_harness("outputs", "asan")

    def run_harness(script, logp):
        cap = logp + ".capture"
        rc, out, to = ctx.run([exe, "junit", script, cap], timeout=600)
        lines = junit_project.capture_to_log(read_log(cap))
        with open(logp, "w") as f:
            for l in lines:
                f.write(json.dumps(l) + "\n")
        return rc, out, to

    tcfg = ctx.write_cfg("Trace_JUnit", TRACE % {"spec": "TSpec", "tail": "INVARIANT TInv\nPOSTCONDITION Accepted"})
    pcfg = ctx.write_cfg("Predict_JUnit", TRACE % {"spec": "PSpec", "tail": "INVARIANT Predict"})

    if ctx.replay:
        rp = json.load(open(ctx.replay))
        ex = [l.split("\t") for l in rp["script"]]
        conform(ctx, "replay", [ex], run_harness, "Trace_JUnit", tcfg, pcfg, key_fn)
        return ctx.finish("replay of one recorded execution", 1)

    # ---- leg 1: the writer design has the property (small runs exhaustively; encoding theorem over all short strings)
    base = {"P": "MC", "na": "97, 60", "nl": 1, "fa": "47", "fl": 1, "ma": "38", "ml": 0, "pa": "34", "pl": 1, "lines": "3",
            "mg": 2, "mt": 2, "mf": 2, "mp": 0, "el": 3 if quick else 4, "opts": "Plain", "mr": 1, "ms": 0}
    # "reporter": the reporter as an object with a life: package changes and file-name queries wherever no group is open, two runs
    # served by one reporter, every combination of run options
    mcs = [("structure", dict(base, mt=2) if quick else dict(base, mt=3, mf=1)),
           ("output", dict(base, mt=1, mf=0, mp=1, pl=0)),
           ("reporter", dict(base, na="97", fa="47", pa="112, 60", mg=2 if quick else 3, mt=1, mf=0 if quick else 1, mp=0, mr=2, ms=1 if quick else 3, opts="All")),
           ("strings", dict(base, na="97, 60, 38", nl=1 if quick else 2, fa="47, 34", ma="38, 10", ml=1, lines="3, 12", mg=1, mt=1, mf=1, mp=1))]
    ctx.notes["model"] = []
    for lab, c in mcs:
        mc = ctx.write_cfg("MC_JUnit_" + lab, MC % c)
        r = ctx.model_check("MC_JUnit", mc, workers=8, timeout=1500, heap="8g")
        ctx.notes["model"].append({"config": lab, "distinct_states": r.distinct, "depth": r.depth,
                                   "constants": {k: v for k, v in c.items() if k != "P"},
                                   "encoding_theorem": "XmlDec(ctx, XmlEnc(s)) = s and XmlSafe for ctx in {attr, text}: all strings of length <= %d over 11 bytes" % c["el"]})

    # ---- leg 2: complete runs generated by TLC, executed through the real registry and the real JUnitTestOutput
    nontriv = set()
    g0 = {"P": "G", "na": "97, 60", "nl": 1, "fa": "47, 34", "fl": 1, "ma": "38", "ml": 1, "pa": "34", "pl": 1, "lines": "3, 12",
          "mg": 1, "mt": 1, "mf": 1, "mp": 1, "D": 12, "opts": "Plain", "mr": 1, "ms": 0, "ri": "TRUE, FALSE"}
    gens = [
        ("bfs1", g0, None, None),
        ("bfs2", dict(g0, na="38, 97", fa="60", ma="38", ml=0, pl=0, lines="3", mg=2, mt=1 if quick else 2, mf=2, mp=0, D=24), None, None),
        ("bfs3", dict(g0, na="34", fa="60", ma="38", ml=0, pl=0, lines="3", mg=1, mt=3 if quick else 4, mf=2, mp=0, D=30), None, None),
        ("sim", dict(g0, na="97, 38, 60, 47", nl=2, fa="102, 34, 38", fl=2, ma="109, 62, 10, 13, 39", ml=2, pa="112, 60", pl=2, lines="0, 12",
                     mg=6, mt=4, mf=3, mp=1, D=40), 6 if quick else 60, 60),
    ]
    # the reporter's own life (JUnit.tla SetPackage / AskFileName / NextRun) and the run options, exhaustively on small runs
    # (quick: two groups in one run with one call on the reporter anywhere / one group in each of two runs with one call anywhere,
    #  run-ignored mode off; thorough: two calls, both modes)
    r0 = dict(g0, na="97", fa="47", ma="38", ml=0, pa="60", pl=1, lines="3", mt=1, mf=0, mp=0, D=20, ri="FALSE" if quick else "TRUE, FALSE")
    gens[1:1] = [
        ("bfs-reporter-groups", dict(r0, na="97, 60", mg=2, mr=1, ms=1 if quick else 2), None, None),
        ("bfs-reporter-runs", dict(r0, mg=1, mr=2, ms=1 if quick else 2), None, None),
        ("bfs-options", dict(g0, na="60", fa="47", ma="38", ml=0, pl=0, lines="3", mg=1, mt=1, mf=1, mp=1, opts="All", D=12), None, None),
    ]
    if quick:
        del gens[3]      # quick: the options vary in the simulation and in the random driver only
    gens[-1][1].update(opts="All", mr=3, ms=6)
    for lab, c, sim, depth in gens:
        gcfg = ctx.write_cfg("Gen_JUnit_" + lab, GEN % c)
        g = ctx.tlc("Gen_JUnit", gcfg, workers=8, simulate=sim, depth=depth, timeout=1500, heap="8g")
        execs = [beh_to_exec(h) for h in g.beh]
        if not execs:
            raise Infra("no behaviours generated by " + lab)
        ctx.sample({"source": "TLC " + lab, "execution": ["\t".join(map(str, l)) for l in execs[ctx.rng.randrange(len(execs))]][:14]})
        conform(ctx, lab, execs, run_harness, "Trace_JUnit", tcfg, pcfg, key_fn, tlc_timeout=1500)
        ctx.evaluations += sum(len(e) for e in execs)
        for e in execs:
            if nontrivial(e):
                nontriv.add(json.dumps(e))

    # ---- leg 3: seeded random runs of up to 30 groups, every printable character, XML specials dense in every string
    nexec, mg, mt = (40, 10, 4) if quick else (200, 30, 6)
    execs = [random_exec(ctx.rng, mg, mt, filtered=0.0 if i % 2 else 0.3, reporter_life=i % 4 >= 2) for i in range(nexec)]
    ctx.sample({"source": "seeded random driver", "execution": ["\t".join(map(str, l)) for l in execs[0][:14]]})
    conform(ctx, "random", execs, run_harness, "Trace_JUnit", tcfg, pcfg, key_fn, tlc_timeout=1500)
    # long values (see the same leg of C20: buffering / truncation defects need values longer than any the small alphabets produce)
    lexecs = [long_exec(ctx.rng) for _ in range(6 if quick else 60)]
    conform(ctx, "long-values", lexecs, run_harness, "Trace_JUnit", tcfg, pcfg, key_fn, tlc_timeout=1500)
    # ... and no bound on the length is part of the statement: a geometric sweep of lengths up to 40 000 bytes (a failure message
    # cut at 4096 written characters went unnoticed while the longest generated value had 400 bytes)
    sexecs = sweep_execs(ctx.rng, SWEEP_LENGTHS, 2000) if quick else \
        [e for _ in range(3) for e in sweep_execs(ctx.rng, SWEEP_LENGTHS, 40000)]
    conform(ctx, "length-sweep", sexecs, run_harness, "Trace_JUnit", tcfg, pcfg, key_fn, tlc_timeout=1500, heap="8g")
    lexecs += sexecs
    ctx.evaluations += sum(len(e) for e in lexecs)
    ctx.evaluations += sum(len(e) for e in execs)
    for e in execs:
        if nontrivial(e):
            nontriv.add(json.dumps(e))
    return ctx.finish(
        rule="executions = lives of one reporter object (one or more complete runs, registry callbacks start..end, with setPackageName / "
             "createFileName calls wherever no group is open and colour / verbosity options per reporter) generated by TLC from JUnit.tla "
             "(exhaustive for 1 group x 1 test with special characters in every string, 2 groups x 1-2 tests, 1 group x 3-4 tests, 2 runs x 2 groups "
             "with 2 package changes / queries, all 6 option combinations; simulation up to 3 runs x 6 groups) plus seeded random runs of "
             "up to 10/30 groups and a length sweep (values of 1 000 .. 40 000 bytes dense in characters that need escaping), each executed by "
             "the real TestRegistry on the real JUnitTestOutput; every file written through the FOpen/FPuts/FClose "
             "seams is parsed by expat (tools/junit_project.py) and the per-callback log is validated by TLC; distinct = distinct scripts; "
             "non-trivial = has a failure, printed text, an ignored test, or a name with an XML-special or file-name-illegal character",
        distinct_nontrivial=len(nontriv), exhaustive=False,
        assumptions=["tests of a group are consecutive and group names are not reused later in the run (as in the property statement)",
                     "with a name filter set, `the tests of the group' are the tests that ran; for a group none of whose tests ran nothing is asked "
                     "except that whatever is written stays well-formed and does not go to the file of a group that ran earlier",
                     "names, paths and texts are byte strings over printable ASCII plus CR and LF (no TAB, no other control characters); names are non-empty",
                     "the package name changes only while no group is open (setPackageName before the first group, between groups, between runs); the file "
                     "of a group is named after the package in force when the group ends; createFileName(g) answers for the package in force",
                     "file names written under different package names may coincide (as may those of group names that differ in illegal characters only)",
                     "the captured output of a file may be the text printed during its group or since the reporter was created (the statement does not say which)",
                     "the failure element must carry the message of one of the test's failures (the reporter keeps the first); its location prefix is not checked",
                     "timestamps, durations, assertion counts, classname and hostname attributes are not checked beyond well-formedness"])
