"""C06 - memory misuse is reported exactly: overruns, foreign frees, mismatched families, poisoning (LeakBlocks.tla)."""
import json
from vlib.conform import conform
from vlib.core import Infra
from props import leakblocks_common as lb


def sweeps(ctx, K):
    """Systematic executions (python enumerates the quantifier's axes; the specification predicts every outcome)."""
    quick = ctx.quick
    G, gb = K["guard"], K["gb"]
    L = lb.L
    ex = []
    fams = [("new", "delete"), ("newarr", "deletearr"), ("malloc", "free")]
    all_eps = [("new", "delete"), ("newdbg", "delete"), ("newnt", "delete"), ("newarr", "deletearr"), ("newarrdbg", "deletearr"),
               ("newarrnt", "deletearr"), ("malloc", "free")]
    # A. every guard position x byte value, paired release
    sizes = [0, 1, 5, 8] if quick else [0, 1, 2, 3, 4, 5, 6, 7, 8, 9, 13, 16, 100, 4200]
    vals = sorted(set(gb + [0, 1, 0x42, 0xCD, 0xFF, 0x80] + [(b + 1) % 256 for b in gb] + [(b - 1) % 256 for b in gb] + [(b ^ 0x20) for b in gb])) if quick else list(range(256))
    for (a, r) in (fams if quick else all_eps):
        for sz in sizes:
            for pos in range(G):
                for v in vals:
                    ex.append([L("alloc", a, 0, sz=sz), L("write", s=0, pos=sz + pos, val=v), L("release", r, 0)])
    # A2. change and restore, several positions, overrun of all guard bytes
    for (a, r) in fams:
        for sz in (0, 3, 8):
            for pos in range(G):
                ex.append([L("alloc", a, 1, sz=sz), L("write", s=1, pos=sz + pos, val=(gb[pos] + 7) % 256), L("write", s=1, pos=sz + pos, val=gb[pos]), L("release", r, 1)])
                for pos2 in range(G):
                    if pos2 != pos:
                        ex.append([L("alloc", a, 1, sz=sz), L("write", s=1, pos=sz + pos, val=0), L("write", s=1, pos=sz + pos2, val=0),
                                   L("write", s=1, pos=sz + pos, val=gb[pos]), L("release", r, 1)])
            ex.append([L("alloc", a, 2, sz=sz)] + [L("write", s=2, pos=sz + i, val=0x55) for i in range(G)] + [L("release", r, 2)])
    # B. writes at every byte position inside the block never produce a report
    for (a, r) in fams:
        for sz in ([1, 7, 8, 33] if quick else [1, 2, 7, 8, 9, 33, 64, 257, 1024, 4200]):
            for v in ([gb[0], 0xCD] if quick else [gb[0], gb[-1], 0, 0xCD, 0xFF]):
                ex.append([L("alloc", a, 3, sz=sz)] + [L("write", s=3, pos=i, val=v) for i in range(sz)] + [L("release", r, 3)])
    # C. allocating family/allocator object x releasing family/allocator object x type checking x guard state
    variants = ["plain", "twin", "wrap", "relabel"]
    combos = []
    for tc in (1, 0):
        for (a, _) in all_eps:
            for va in variants:
                for (_, r) in fams:
                    for vr in variants:
                        for gpos in [-1] + list(range(G)):
                            for sz in (0, 5, 8):
                                combos.append((tc, a, va, r, vr, gpos, sz))
    if quick:
        combos = ctx.rng.sample(combos, 500)
    for (tc, a, va, r, vr, gpos, sz) in combos:
        fa, fr = lb.FAM[a], lb.FAM[r]
        e = []
        if not tc:
            e.append(L("typecheck", val=0))
        if va != "plain":
            e.append(L("setalloc", fa, var=va))
        e.append(L("alloc", a, 4, sz=sz))
        if gpos >= 0:
            e.append(L("write", s=4, pos=sz + gpos, val=(gb[gpos] + 128) % 256))
        cur = va if fa == fr else "plain"
        if vr != cur:
            e.append(L("setalloc", fr, var=vr))
        e.append(L("release", r, 4))
        ex.append(e)
    # D. addresses that are not outstanding blocks: interior, stale (double release), foreign, NULL; every release family
    for (a, r) in fams:
        for (_, r2) in fams:
            for sz in (0, 1, 8, 40):
                offs = list(range(1, sz + G + 9)) if not quick else [1, 2, sz + 1, sz + G, sz + G + 8]
                e = [L("alloc", a, 5, sz=sz)]
                for off in offs:
                    e.append(L("release", r2, 5, pos=off))
                e += [L("release", r2, -1), L("release", r2, -2), L("release", r, 5), L("release", r2, 5), L("release", r2, 5, pos=1),
                      L("realloc", s=5, s2=5, sz=4), L("release", r2, 6)]
                ex.append(e)
    return ex


def random_exec(rng, n, K):
    """Seeded random misuse history (generator mirrors the enabling conditions; outcomes come from the specification)."""
    G, gb = K["guard"], K["gb"]
    L = lb.L
    live = {}       # slot -> (fam, size, proper_guard)
    cur = {"new": "plain", "newarr": "plain", "malloc": "plain"}
    ex = []
    eps = list(lb.FAM_ALLOC)
    for _ in range(n):
        r = rng.random()
        free_slots = [s for s in range(8) if s not in live]
        if r < 0.25 and free_slots:
            s = rng.choice(free_slots); ep = rng.choice(eps); sz = rng.choice([0, 1, 2, 3, 5, 7, 8, 9, 16, 31, 100, 1000])
            ex.append(L("alloc", ep, s, sz=sz)); live[s] = [lb.FAM[ep], sz]
        elif r < 0.50 and live:
            s = rng.choice(sorted(live)); sz = live[s][1]
            if rng.random() < 0.6:
                pos = sz + rng.randrange(G); val = rng.choice([gb[pos - sz], rng.randrange(256), 0xCD, 0])
            elif sz > 0:
                pos = rng.randrange(sz); val = rng.randrange(256)
            else:
                continue
            ex.append(L("write", s=s, pos=pos, val=val))
        elif r < 0.72 and live:
            s = rng.choice(sorted(live)); fam = live[s][0]
            rel = lb.REL_OF[fam] if rng.random() < 0.6 else rng.choice(["delete", "deletearr", "free"])
            ex.append(L("release", rel, s)); del live[s]
        elif r < 0.82:
            s = rng.randrange(8); rel = rng.choice(["delete", "deletearr", "free"])
            if s in live:
                ex.append(L("release", rel, s, pos=rng.randrange(1, live[s][1] + G + 4)))
            else:
                ex.append(L("release", rel, s, pos=rng.choice([0, 0, 1])))
        elif r < 0.86:
            ex.append(L("release", rng.choice(["delete", "deletearr", "free"]), rng.choice([-1, -2])))
        elif r < 0.92:
            ex.append(L("typecheck", val=rng.choice([0, 1])))
        else:
            f = rng.choice(["new", "newarr", "malloc"]); v = rng.choice(["plain", "twin", "wrap", "relabel"])
            ex.append(L("setalloc", f, var=v)); cur[f] = v
    return ex


def nontrivial(e):
    return any(l[0] == "write" for l in e) or sum(1 for l in e if l[0] == "release") >= 1 and any(l[0] in ("typecheck", "setalloc") for l in e) \
        or any(l[0] == "release" and (int(l[2]) < 0 or int(l[7]) > 0) for l in e)


def run(ctx):
    quick = ctx.quick
    exe = ctx.build_harness("blocks", "asan")
    K = lb.constants(ctx, exe)
    cap = lb.CAP
    run_h = lambda s, l: ctx.run([exe, s, l, str(cap)], timeout=900)
    tcfg = ctx.write_cfg("Trace_LeakBlocks", lb.trace_cfg(K, "TSpec", "INVARIANT TInv\nPOSTCONDITION Accepted"))
    pcfg = ctx.write_cfg("Predict_LeakBlocks", lb.trace_cfg(K, "PSpec", "INVARIANT Predict"))

    if ctx.replay:
        rp = json.load(open(ctx.replay))
        ex = [l.split("\t") for l in rp["script"]]
        if (rp.get("meta") or {}).get("mode") == "ts":
            run_h = lambda s, l: ctx.run([exe, s, l, str(cap), "ts"], timeout=900)
        conform(ctx, "replay", [ex], run_h, "Trace_LeakBlocks", tcfg, pcfg, lb.key_fn, meta=rp.get("meta"))
        return ctx.finish("replay of one recorded execution", 1)

    # ---- leg 1: the specification satisfies the property's clauses (exhaustive, small constants, layout constants of this build)
    mc = ctx.write_cfg("MC_LeakBlocks_c06", lb.mc_cfg(K, slots="0", cap=200, small="0, 1" if quick else "0, 1, 5",
                                                      big="NoBig", pairs="NoPairs", strlens="", strns="NoBig",
                                                      vals="%d, 0" % K["gb"][0] if quick else ", ".join(map(str, sorted(set(K["gb"] + [0])))),
                                                      faults='"none"', variants='"plain", "twin", "wrap"',
                                                      eps='"new", "newarr", "malloc"', maxoff=1,
                                                      invs="TypeOK LayoutSound ReportExact WritesAreSilent Poisoned FamilyIsActualName RequestsAreSilent FailsIffUnsatisfiable"))
    r = ctx.model_check("MC_LeakBlocks", mc, workers=8, timeout=1500, heap="8g")
    ctx.notes["model"] = {"distinct_states": r.distinct, "depth": r.depth,
                          "constants": "1 slot, sizes {0,1%s}, 3 families x 3 allocator objects, type checking on/off, guard bytes x %s values, "
                                       "5 address classes; layout constants from this build: %s" % ("" if quick else ",5", "2" if quick else "4", json.dumps(K))}

    distinct = set()
    # ---- leg 2: behaviours generated by TLC from the specification, executed through the real entry points
    gens = [("bfs", dict(slots="0", small="1", vals="0", variants='"plain", "wrap"', eps='"new", "newarr", "malloc"', maxoff=1, D=3), None, None),
            ("sim", dict(slots="0, 1, 2", small="0, 1, 5, 8", vals=", ".join(map(str, sorted(set(K["gb"] + [0, 205])))), variants='"plain", "twin", "wrap", "relabel"',
                         eps='"new", "newdbg", "newnt", "newarr", "newarrdbg", "newarrnt", "malloc"', maxoff=2, D=14), 60 if quick else 600, 20)]
    for (lab, g, sim, depth) in gens:
        gcfg = ctx.write_cfg("Gen_LeakBlocks_c06_" + lab, lb.gen_cfg(K, big="NoBig", pairs="NoPairs", strlens="", strns="NoBig", faults='"none"', **g))
        gr = ctx.tlc("Gen_LeakBlocks", gcfg, workers=8, simulate=sim, depth=depth, timeout=1800, heap="8g")
        execs = [lb.beh_to_exec(h) for h in gr.beh]
        if not execs:
            raise Infra("no behaviours generated by " + lab)
        ctx.sample({"source": "TLC " + lab, "execution": lb.show(execs[ctx.rng.randrange(len(execs))])})
        conform(ctx, lab, execs, run_h, "Trace_LeakBlocks", tcfg, pcfg, lb.key_fn, tlc_timeout=1800)
        ctx.evaluations += sum(len(e) for e in execs)
        if lab == "bfs":
            bfs_execs = execs
        distinct.update(json.dumps(e) for e in execs if nontrivial(e))

    # ---- leg 3: systematic sweeps over the quantifier's axes and seeded random histories, validated against the specification
    sw = sweeps(ctx, K)
    ctx.sample({"source": "sweep", "execution": lb.show(sw[ctx.rng.randrange(len(sw))])})
    for i in range(0, len(sw), 8000):
        conform(ctx, "sweep%d" % (i // 8000), sw[i:i + 8000], run_h, "Trace_LeakBlocks", tcfg, pcfg, lb.key_fn, tlc_timeout=1800)
    ctx.evaluations += sum(len(e) for e in sw)
    distinct.update(json.dumps(e) for e in sw if nontrivial(e))
    nexec, nops = (8, 400) if quick else (60, 2000)
    rnd = [random_exec(ctx.rng, nops, K) for _ in range(nexec)]
    ctx.sample({"source": "seeded random driver", "execution": lb.show(rnd[0])})
    conform(ctx, "random", rnd, run_h, "Trace_LeakBlocks", tcfg, pcfg, lb.key_fn, tlc_timeout=1800)
    ctx.evaluations += sum(len(e) for e in rnd)
    distinct.update(json.dumps(e[:40]) for e in rnd)
    # ---- the same calls through the thread-safe overloads, and with detector period switches interleaved (a release before any plugin exists,
    # or between disable() and enable(), is checked and poisoned like any other)
    again = (bfs_execs if not quick else bfs_execs[::3]) + (sw if not quick else sw[::3]) + rnd
    lb.mode_legs(ctx, conform, exe, again, tcfg, pcfg, chunk=8000)
    return ctx.finish(
        rule="executions = TLC-generated behaviours of LeakBlocks (exhaustive to depth 3 on one slot; simulation to depth 14 on 3 slots) + systematic "
             "sweeps (every guard position x byte value x size x family; every user byte position; allocating x releasing family x allocator "
             "object x type checking x guard state; interior/stale/foreign/NULL addresses) + seeded random misuse histories, each run through the "
             "real global entry points on a private detector; distinct = distinct call sequences; non-trivial = contains a write, a foreign/"
             "interior/NULL release or a release after a configuration change",
        distinct_nontrivial=len(distinct), exhaustive=False,
        assumptions=["the generated behaviours, sweeps and random histories are run three times: as they are, through the thread-safe operator new/delete overloads, "
                     "and with MemoryLeakDetector::disable / enable / startChecking calls interleaved (LeakBlocks!SetPeriod changes nothing)",
                     "underlying memory comes from the harness arena through recording TestMemoryAllocators installed with setCurrent*Allocator; "
                     "the wrapper allocator is a harness class following the actualAllocator() protocol of MemoryLeakAllocator/AccountingTestMemoryAllocator",
                     "the failure callback records and returns (in a test run it would end the test); what the detector does after it is not part of the property",
                     "'overwritten' is judged against two fill values (0x5A/0xA5) stored by the harness just before the release; the poison value itself is not required",
                     "realloc of a corrupted or mismatched block is not generated (the statement speaks of releases)"])
