"""C19 - the C mocking interface behaves exactly like the C++ one: every scenario is run through mock() and through
mock_c(), each as the body of a fixture test; both logs must be behaviours of Mock.tla and equal on the projection
(verdict, failure text, returned value with its type tag, default used or not, output bytes)."""
import json, os, random, re, shutil
from vlib.conform import conform, read_log
from vlib.core import Infra
import mockgen as G
from props.c09 import enc_int, BITS, SIGNED
from mockgen import enc

# user types: comparators per scope (two scopes, one type name, objects that agree in the first field only), copiers per scope
MC_CMP = dict(scopes="ScopesGS", fns='"f"', pnames='"p"', vals="ValsObjQ", ns="1", maxexp=1, maxcalls=1, maxinst=1, flags="FALSE")
MC_CPY = dict(scopes="ScopesGS", fns='"f"', pnames="", onames='"x"', odata="Typed1", ns="1", maxexp=1, maxcalls=1, maxinst=1, flags="FALSE")
# doubles: one expectation with tolerance 0 / default / small / negative / -inf, one actual value equal, one unit off, on and beyond
# the edge of the default tolerance
MC_DBL = dict(fns='"f"', pnames='"p"', vals="ValsDbl", ns="1", maxexp=1, maxcalls=1, flags="FALSE")
# the comparator domain (equality of the whole object / of the first field, never, always, expected-below-actual) x the object pairs (the
# very same object, the same content in another object, another content): one scope, one expectation, one call
MC_IDENT = dict(fns='"f"', pnames='"p"', vals="ValsObjIdQ", ns="1", maxexp=1, maxcalls=1, maxinst=1, flags="FALSE")
# the test around the scenario: a check of the test itself fails at any point (the first failure; nothing is reported afterwards)
MC_PHASES = dict(fns='"f"', pnames="", ns="1", maxexp=1, maxcalls=2, phases="TRUE")
MC_QUICK = [("typed", dict(fns='"f"', pnames="", rets="RetsTyped", getters="GetTyped", maxexp=1, ns="1, 2", maxcalls=2)),
            ("comparators", MC_CMP), ("identity", MC_IDENT), ("copiers", MC_CPY), ("doubles", MC_DBL), ("phases", MC_PHASES)]
MC_THOROUGH = [("typed", dict(fns='"f", "g"', pnames='"p"', rets="RetsTyped", getters="GetTyped", maxexp=1, ns="1, 2", maxcalls=3)),
               ("typed2", dict(fns='"f"', pnames="", rets="RetsTyped", getters="GetTyped", maxexp=2, ns="1", maxcalls=3)),
               ("core", dict(maxcalls=3)),
               ("scopes", dict(scopes="ScopesGS", fns='"f"', ns="1", maxexp=1, maxcalls=3, rets="Rets2", getters="GetTyped")),
               # (two installations per scope / three scopes: the two equalities only; every comparison function: two scopes, one installation each)
               ("comparators", dict(MC_CMP, vals="ValsObj1", maxinst=2, maxcalls=2, cmpx="CmpPlain")),
               ("comparators3", dict(MC_CMP, scopes="ScopesGST", cmpx="CmpPlain")), ("comparators5", MC_CMP),
               ("identity", dict(MC_IDENT, vals="ValsObjId", maxcalls=2)),
               ("copiers", dict(MC_CPY, maxinst=2, maxcalls=2)), ("doubles", dict(MC_DBL, ns="1, 2", maxcalls=2)),
               ("phases", dict(MC_PHASES, fns='"f", "g"', maxexp=2, maxcalls=3))]
GEN = [("bfs", 5, None, None, dict(fns='"f"', ns="1", maxexp=1, maxcalls=2, rets="RetsTyped", getters="GetTyped")),
       # double parameters: every tolerance class x every distance class, exhaustively for one expectation and one call
       ("bfsdbl", 5, None, None, dict(fns='"f"', pnames='"p"', vals="ValsDbl", ns="1", maxexp=1, maxcalls=1, rets="Rets1", flags="FALSE")),
       # user-type parameters: every comparison function x every pair (expected object, actual object) among three contents, each in an object
       # of its own and in a shared one (the expectation and the call may hold the very same object), exhaustively for one expectation and one call
       ("bfscmp", 5, None, None, dict(fns='"f"', pnames='"p"', vals="ValsObjId", ns="1", maxexp=1, maxcalls=1, rets="Rets1", maxinst=1, flags="FALSE")),
       ("sim", 14, 12, 500, dict(pnames='"p", "q"', vals="Vals3", rets="RetsTyped", getters="GetTyped", maxexp=3, ns="0, 1, 2", maxcalls=5)),
       ("simout", 14, 8, 300, dict(fns='"f"', pnames='"p"', rets="Rets3", getters="GetTyped", onames='"x"', odata="Raw2", maxexp=3, ns="1, 2", maxcalls=4)),
       ("simscope", 16, 10, 300, dict(scopes="ScopesGS", fns='"f"', pnames='"p"', rets="RetsTyped", getters="GetTyped", maxexp=2, ns="1, 2",
                                      maxcalls=5, late="TRUE", toggles="TRUE")),
       # user types: comparators / copiers installed per scope (three scopes, re-installation, inheritance by scopes created later, removal),
       # objects of two type names that agree in the first field or in both, output parameters of a user type
       ("simtypes", 14, 25, 500, dict(scopes="ScopesGST", fns='"f"', pnames='"p"', vals="ValsObj2", rets="Rets1", maxexp=1, ns="1", maxcalls=3,
                                      maxinst=2, late="TRUE")),
       ("simcopy", 14, 12, 300, dict(scopes="ScopesGST", fns='"f"', pnames="", onames='"x"', odata="Typed2", rets="Rets1", maxexp=1,
                                    ns="1", maxcalls=3, maxinst=2, late="TRUE")),
       # the data store: values of several kinds and objects of user types whose names begin like a built-in type name
       ("simdata", 10, 8, 250, dict(scopes="ScopesGS", fns='"f"', pnames="", rets="Rets1", maxexp=1, ns="1", maxcalls=1, dkeys="Keys2", dvals="DVals1"))]
GEN_PHASES = [
       # the test around the scenario: a body in which a check of the test itself may fail, and a teardown of two calls (checkExpectations,
       # expectedCallsLeft, an actual call, clear) - exhaustively for two functions, two expectations and a body of four calls; sampled with
       # scopes, parameters and typed return values.  Whatever the teardown asks of the mock in a test that has failed adds nothing
       ("bfsphase", 4, None, None, dict(fns='"f", "g"', pnames="", ns="1", maxexp=2, maxcalls=2, rets="Rets1", flags="FALSE", phases="TRUE")),
       ("simphase", 12, 8, 150, dict(scopes="ScopesGS", fns='"f"', pnames='"p"', rets="RetsTyped", getters="GetTyped", maxexp=2, ns="1, 2",
                                      maxcalls=4, phases="TRUE"))]

LATTICE = [0, 1, 2, -1, -2, 2 ** 31 - 1, 2 ** 31, 2 ** 31 + 1, -2 ** 31, -2 ** 31 - 1, 2 ** 32 - 1, 2 ** 32, 2 ** 32 + 1, 2 ** 63 - 1, 2 ** 63,
           2 ** 64 - 1, -2 ** 63, -2 ** 63 + 1]
INT_GETTER = {"int": "int", "uint": "uint", "long": "long", "ulong": "ulong", "llong": "llong", "ullong": "ullong"}
# entry points of the three C function tables, and the script feature that exercises each
C_ACTUAL = ["withBoolParameters", "withIntParameters", "withUnsignedIntParameters", "withLongIntParameters", "withUnsignedLongIntParameters",
            "withLongLongIntParameters", "withUnsignedLongLongIntParameters", "withDoubleParameters", "withStringParameters", "withPointerParameters",
            "withConstPointerParameters", "withFunctionPointerParameters", "withMemoryBufferParameter", "withParameterOfType", "withOutputParameter",
            "withOutputParameterOfType"]
C_EXPECT = C_ACTUAL[:7] + ["withDoubleParameters", "withDoubleParametersAndTolerance"] + C_ACTUAL[8:14] + \
    ["withOutputParameterReturning", "withOutputParameterOfTypeReturning", "withUnmodifiedOutputParameter", "ignoreOtherParameters",
     "andReturnBoolValue", "andReturnUnsignedIntValue", "andReturnIntValue", "andReturnLongIntValue", "andReturnUnsignedLongIntValue",
     "andReturnLongLongIntValue", "andReturnUnsignedLongLongIntValue", "andReturnDoubleValue", "andReturnStringValue", "andReturnPointerValue",
     "andReturnConstPointerValue", "andReturnFunctionPointerValue"]
C_GETTERS = {"value": "returnValue", "bool": "boolReturnValue", "bool/d": "returnBoolValueOrDefault", "int": "intReturnValue", "int/d": "returnIntValueOrDefault",
             "uint": "unsignedIntReturnValue", "uint/d": "returnUnsignedIntValueOrDefault", "long": "longIntReturnValue", "long/d": "returnLongIntValueOrDefault",
             "ulong": "unsignedLongIntReturnValue", "ulong/d": "returnUnsignedLongIntValueOrDefault", "llong": "longLongIntReturnValue",
             "llong/d": "returnLongLongIntValueOrDefault", "ullong": "unsignedLongLongIntReturnValue", "ullong/d": "returnUnsignedLongLongIntValueOrDefault",
             "str": "stringReturnValue", "str/d": "returnStringValueOrDefault", "double": "doubleReturnValue", "double/d": "returnDoubleValueOrDefault",
             "ptr": "pointerReturnValue", "ptr/d": "returnPointerValueOrDefault", "cptr": "constPointerReturnValue", "cptr/d": "returnConstPointerValueOrDefault",
             "fptr": "functionPointerReturnValue", "fptr/d": "returnFunctionPointerValueOrDefault"}
C_SUPPORT_OTHER = ["strictOrder", "expectOneCall", "expectNoCall", "expectNCalls", "actualCall", "hasReturnValue", "setBoolData", "setIntData",
                   "setUnsignedIntData", "setStringData", "setDoubleData", "setPointerData", "setConstPointerData", "setFunctionPointerData",
                   "setDataConstObject", "setDataObject", "getData", "disable", "enable", "ignoreOtherCalls", "checkExpectations", "expectedCallsLeft", "clear",
                   "installComparator", "installCopier", "removeAllComparatorsAndCopiers"]
NOT_DRIVEN = ["MockSupport_c.crashOnFailure (would crash the harness)"]
PARAM_FN = {"B": "withBoolParameters", "S": "withStringParameters", "M": "withMemoryBufferParameter", "O": "withParameterOfType"}
INT_FN = {"int": "withIntParameters", "uint": "withUnsignedIntParameters", "long": "withLongIntParameters", "ulong": "withUnsignedLongIntParameters",
          "llong": "withLongLongIntParameters", "ullong": "withUnsignedLongLongIntParameters"}
PTR_FN = {"v": "withPointerParameters", "c": "withConstPointerParameters", "f": "withFunctionPointerParameters"}
RET_FN = {"B": "andReturnBoolValue", "S": "andReturnStringValue", "D": "andReturnDoubleValue"}
RET_INT = {"int": "andReturnIntValue", "uint": "andReturnUnsignedIntValue", "long": "andReturnLongIntValue", "ulong": "andReturnUnsignedLongIntValue",
           "llong": "andReturnLongLongIntValue", "ullong": "andReturnUnsignedLongLongIntValue"}
RET_PTR = {"v": "andReturnPointerValue", "c": "andReturnConstPointerValue", "f": "andReturnFunctionPointerValue"}
DATA_FN = {"B": "setBoolData", "S": "setStringData", "D": "setDoubleData", "O": "setDataConstObject"}
DATA_PTR = {"v": "setPointerData", "c": "setConstPointerData", "f": "setFunctionPointerData"}


def param_fn(e, expected):
    f = e.split("|")
    if f[0] == "I":
        return INT_FN[f[1]]
    if f[0] == "P":
        return PTR_FN[f[1]]
    if f[0] == "D":
        return "withDoubleParameters" if (not expected or f[4] == "dflt") else "withDoubleParametersAndTolerance"
    return PARAM_FN[f[0]]


def coverage(execs):
    """which entry points of MockSupport_c / MockExpectedCall_c / MockActualCall_c the scripts drive"""
    cov = {}

    def hit(table, name):
        cov[table + "." + name] = cov.get(table + "." + name, 0) + 1
    for ex in execs:
        for l in ex:
            op = l[0]
            if op == "expect":
                n = int(l[3])
                bare = l[6] == "-" and l[7] == "-" and l[8] == "-" and str(l[5]) == "0"
                hit("MockSupport_c", "expectNoCall" if (n == 0 and bare) else ("expectOneCall" if n == 1 else "expectNCalls"))
                if n == 0 and bare:
                    continue
                if l[6] != "-":
                    for p in l[6].split(";"):
                        hit("MockExpectedCall_c", param_fn(p.split("=", 1)[1], True))
                if l[7] != "-":
                    for p in l[7].split(";"):
                        ty, data = p.split("=", 1)[1].split(":")
                        hit("MockExpectedCall_c", "withOutputParameterOfTypeReturning" if ty != "raw" else
                            ("withUnmodifiedOutputParameter" if data == "" else "withOutputParameterReturning"))
                if str(l[5]) == "1":
                    hit("MockExpectedCall_c", "ignoreOtherParameters")
                if l[8] != "-":
                    f = l[8].split("|")
                    hit("MockExpectedCall_c", RET_INT[f[1]] if f[0] == "I" else (RET_PTR[f[1]] if f[0] == "P" else RET_FN[f[0]]))
            elif op == "begin":
                hit("MockSupport_c", "actualCall")
            elif op == "param":
                hit("MockActualCall_c", param_fn(l[3], False))
            elif op == "outparam":
                hit("MockActualCall_c", "withOutputParameter" if l[3] == "raw" else "withOutputParameterOfType")
            elif op == "ret":
                table = "MockActualCall_c" if l[3] == "call" else "MockSupport_c"
                hit(table, "hasReturnValue")
                hit(table, C_GETTERS[l[2]])
            elif op == "setdata":
                f = l[3].split("|")
                if f[0] == "O":
                    hit("MockSupport_c", "setDataObject" if (len(l) > 4 and l[4] == "mut") else "setDataConstObject")
                else:
                    hit("MockSupport_c", ("setIntData" if f[1] == "int" else "setUnsignedIntData") if f[0] == "I" else (DATA_PTR[f[1]] if f[0] == "P" else DATA_FN[f[0]]))
            elif op in ("installcmp", "installcpy", "removeall"):
                hit("MockSupport_c", {"installcmp": "installComparator", "installcpy": "installCopier", "removeall": "removeAllComparatorsAndCopiers"}[op])
            elif op == "getdata":
                hit("MockSupport_c", "getData")
            elif op in ("left", "check", "clear", "disable", "enable", "ignoreothers", "strict"):
                hit("MockSupport_c", {"left": "expectedCallsLeft", "check": "checkExpectations", "ignoreothers": "ignoreOtherCalls", "strict": "strictOrder"}.get(op, op))
    # (the harness also calls removeAllComparatorsAndCopiers after every execution)
    return cov


def reinterpret(v, code):
    p = v & ((1 << BITS[code]) - 1)
    if code in SIGNED and p >> (BITS[code] - 1):
        p -= 1 << BITS[code]
    return p


def in_range(v, code):
    return reinterpret(v, code) == v


def sweep(rng, quick):
    """per-type sweep: every parameter / return type with boundary values, every getter (plain and OrDefault) on every
    return type, the data store, output parameters - each as a small scenario"""
    execs = []
    codes = list(BITS)
    ints = [(c, v) for c in codes for v in LATTICE if in_range(v, c)]
    others = ["B|0", "B|1", "P|v|0", "P|v|1", "P|c|0", "P|c|2", "P|f|0", "P|f|1", "P|f|2", "S|", "S|6162", "M|", "M|00ff10", "D|fin|0|8|dflt|0|0",
              "D|fin|1|-4|fin|0|2", "D|inf|0|0|fin|0|0", "D|inf|1|0|dflt|0|0"]
    getters = [g for g in C_GETTERS if g != "value"]
    dflt = {"bool": "B|1", "int": enc_int("int", -7), "uint": enc_int("uint", 7), "long": enc_int("long", -2 ** 40), "ulong": enc_int("ulong", 2 ** 40),
            "llong": enc_int("llong", -2 ** 62), "ullong": enc_int("ullong", 2 ** 63 + 5), "str": "S|646566", "double": "D|fin|0|20|fin|0|0",
            "ptr": "P|v|2", "cptr": "P|c|1", "fptr": "P|f|2"}
    # (1) parameters: expectation and actual spelled in every type; matching and one-off values
    pvals = [enc_int(c, v) for c, v in ints] + others
    if quick:
        pvals = [x for i, x in enumerate(pvals) if i % 3 == 0] + others
    # doubles: both expectation forms (without a tolerance = the default 0.005 = 5 grid units; with a tolerance: zero = exact,
    # the default spelled out, tiny, negative, -inf, NaN) x actual values equal, one unit off (less than the default tolerance), on
    # the edge of the default tolerance and one unit beyond it, on either side
    Q = G.DEFAULT_TOL_Q
    for base in (1024, -2560, 0):
        for tol in ("dflt|0|0", "fin|0|0", "fin|0|%d" % Q, "fin|0|1", "fin|1|-1", "fin|1|-%d" % Q, "fin|1|-4096", "inf|1|0", "nan|0|0", "inf|0|0"):
            for off in (0, 1, -1, Q, -Q, Q + 1, -Q - 1):
                if base != 1024 and off not in (0, 1, -Q - 1):
                    continue
                e = "D|fin|%d|%d|%s" % (1 if base < 0 else 0, base, tol)
                a = "D|fin|%d|%d|fin|0|0" % (1 if base + off < 0 else 0, base + off)
                execs.append([["expect", "", "f", 1, 0, 0, "p=" + e, "-", "-"], ["begin", "", "f"], ["param", "", "p", a], ["ret", "", "value", rng.choice(["call", "support"])], ["check"], ["end"]])
    for tol in ("fin|1|-1", "fin|0|0", "dflt|0|0", "inf|1|0"):      # an infinity equals itself whatever the tolerance
        for a in ("D|inf|0|0|fin|0|0", "D|inf|1|0|fin|0|0"):
            execs.append([["expect", "", "f", 1, 0, 0, "p=D|inf|0|0|" + tol, "-", "-"], ["begin", "", "f"], ["param", "", "p", a], ["check"], ["end"]])
    for e in pvals:
        acts = [e]
        f = e.split("|")
        if f[0] == "I":
            v = (-1 if f[2] == "1" else 1) * ((int(f[3]) << 48) | (int(f[4]) << 32) | (int(f[5]) << 16) | int(f[6]))
            c2 = rng.choice(codes)
            acts.append(enc_int(c2, reinterpret(v, c2)))       # same bit pattern in another type: equal only if the same integer
            acts.append(enc_int(f[1], reinterpret(v + 1, f[1])))
        elif f[0] == "D":
            acts = [e.replace("dflt", "fin")]
        else:
            other = {"B|0": "B|1", "B|1": "B|0", "P|v|0": "P|v|1", "P|v|1": "P|c|1", "P|c|0": "P|c|2", "P|c|2": "P|v|2", "P|f|0": "P|f|1", "P|f|1": "P|f|2",
                     "P|f|2": "P|f|0", "S|": "S|61", "S|6162": "S|6163", "M|": "M|00", "M|00ff10": "M|00ff"}
            acts.append(other[e])
        for a in acts:
            execs.append([["expect", "", "f", 1, 0, 0, "p=" + e, "-", "-"], ["begin", "", "f"], ["param", "", "p", a], ["ret", "", "value", rng.choice(["call", "support"])], ["check"], ["end"]])
    # (1b) user types, every type name (ordinary names; some begin or end like a built-in type name): a parameter compared by the
    # function installed for the name - the same object, one that agrees in the first field only, a different one, the same content
    # under another type name - and an output parameter copied by the function installed for the name
    tns = G.user_type_names()
    for i, tn in enumerate(tns):
        if quick and i % 3 != 0 and tn not in ("intPair", "boolean_flag", "doubleBox"):
            continue
        md, cp = ("whole", "first")[i % 2], ("plain", "inv")[(i // 2) % 2]
        tn2 = tns[(i + 1) % len(tns)]
        for act in ("O|%s|2,3" % tn, "O|%s|2,1" % tn, "O|%s|1,3" % tn, "O|%s|2,3" % tn2):
            execs.append([["installcmp", "", tn, md], ["installcmp", "", tn2, "whole"], ["expect", "", "f", 1, 0, 0, "p=O|%s|2,3" % tn, "-", "-"], ["begin", "", "f"],
                          ["param", "", "p", act], ["ret", "", "value", rng.choice(["call", "support"])], ["check"], ["end"]])
        execs.append([["installcpy", "", tn, cp], ["expect", "", "f", 1, 0, 0, "-", "y=%s:2a00ff01" % tn, "-"], ["begin", "", "f"], ["outparam", "", "y", tn],
                      ["ret", "", "value", "call"], ["check"], ["end"]])
        # no comparator for the name in this scope
        execs.append([["installcmp", "s", tn, md], ["expect", "", "f", 1, 0, 1, "-", "-", "-"], ["begin", "", "f"], ["param", "", "p", "O|%s|2,3" % tn], ["check"], ["end"]])
    # (1c) the comparator domain x the pairs of objects: every comparison function - also those that are no equivalence (never / always equal,
    # expected below actual) - decides alone, whatever the two objects are: the very same object on both sides (the n-th shared object), the
    # same content in another shared object / in an object of its own, a content that agrees in the first field only, a greater / smaller
    # first field; the expectation holds a shared object or one of its own; in the global scope and in a child scope; twice in one test
    for j, md in enumerate(G.CMP_MODES):
        for S in ("", "s"):
            tn = tns[(5 * j + 2 * (S == "s")) % len(tns)]
            for expd in ("O|%s|2,3|1" % tn, "O|%s|2,3" % tn):
                for act in ("O|%s|2,3|1" % tn, "O|%s|2,3|2" % tn, "O|%s|2,3" % tn, "O|%s|2,1|1" % tn, "O|%s|3,3|1" % tn, "O|%s|1,3" % tn):
                    if expd.count("|") == 2 and act not in ("O|%s|2,3|1" % tn, "O|%s|2,3" % tn, "O|%s|3,3|1" % tn):
                        continue
                    execs.append([["installcmp", S, tn, md], ["expect", S, "f", 1, 0, 0, "p=" + expd, "-", "-"], ["begin", S, "f"], ["param", S, "p", act],
                                  ["ret", S, "value", rng.choice(["call", "support"])], ["check"], ["end"]])
            execs.append([["installcmp", "", tn, md], ["expect", S, "f", 2, 0, 0, "p=O|%s|1,1|2" % tn, "-", enc_int("int", 6)], ["begin", S, "f"], ["param", S, "p", "O|%s|1,1|2" % tn],
                          ["ret", S, "int", "call"], ["begin", S, "f"], ["param", S, "p", "O|%s|2,1|2" % tn], ["ret", S, "int", "call"], ["check"], ["end"]])
    # (2) return values: every return type x every getter
    rvals = [enc_int(c, v) for c, v in ints] + ["B|0", "B|1", "P|v|1", "P|c|2", "P|f|1", "P|f|0", "S|6162", "S|", "D|fin|0|12|fin|0|0", "D|inf|1|0|fin|0|0", "-"]
    for r in rvals:
        gs = getters if (not quick or r == "-") else rng.sample(getters, 5)
        if r[0] == "I" and not quick:
            gs = [g for g in getters if g.split("/")[0] in INT_GETTER] + rng.sample(getters, 4)
        for g in ["value"] + gs:
            line = ["ret", "", g, rng.choice(["call", "support"])] + ([dflt[g[:-2]]] if g.endswith("/d") else [])
            execs.append([["expect", "", "f", 1, 0, 0, "-", "-", r], ["begin", "", "f"], line, ["check"], ["end"]])
    # (3) data store
    for d in ["B|1", "B|0", enc_int("int", -2 ** 31), enc_int("int", 5), enc_int("uint", 2 ** 32 - 1), "S|6869", "D|fin|1|-9|fin|0|0", "P|v|1", "P|c|2", "P|f|1"]:
        execs.append([["setdata", "", "k", d], ["getdata", "", "k"], ["getdata", "", "missing"], ["setdata", "s", "k", "B|1"], ["getdata", "s", "k"], ["clear"], ["getdata", "", "k"], ["end"]])
    # objects of user types in the data store, every type name, const and non-const, in the global scope and in a child scope
    for i, tn in enumerate(tns):
        for how in ("const", "mut"):
            d = "O|%s|%d,%d" % (tn, 1 + i % 3, 1 + (i // 3) % 3)
            sc = ("", "s")[(i + (how == "mut")) % 2]
            execs.append([["setdata", sc, "k", d, how], ["getdata", sc, "k"], ["getdata", sc, "missing"], ["setdata", "s", "other", "B|1"], ["getdata", "s", "other"],
                          ["setdata", sc, "k", "O|%s|3,3" % tns[(i + 7) % len(tns)], how], ["getdata", sc, "k"], ["clear"], ["getdata", sc, "k"], ["end"]])
    # (4) output parameters, ignore-other-parameters, counts, order, flags
    execs.append([["installcpy", "", "TypeA", "plain"], ["expect", "", "f", 1, 0, 0, "-", "x=raw:0102030405060708;y=TypeA:2a000000;z=raw:", "-"], ["begin", "", "f"], ["outparam", "", "x", "raw"],
                  ["outparam", "", "y", "TypeA"], ["outparam", "", "z", "raw"], ["ret", "", "value", "call"], ["check"], ["end"]])
    execs.append([["installcpy", "", "TypeA", "inv"], ["expect", "", "f", 1, 0, 0, "-", "y=TypeA:2a000000", "-"], ["begin", "", "f"], ["outparam", "", "y", "TypeB"], ["check"], ["end"]])
    execs.append([["expect", "", "f", 2, 0, 1, "p=" + enc_int("int", 1), "-", enc_int("int", 3)], ["begin", "", "f"], ["param", "", "zz", "B|1"],
                  ["param", "", "p", enc_int("long", 1)], ["ret", "", "int", "support"], ["left"], ["begin", "", "f"], ["param", "", "p", enc_int("int", 1)], ["check"], ["end"]])
    execs.append([["strict", ""], ["expect", "", "f", 1, 0, 0, "-", "-", "-"], ["expect", "", "g", 1, 0, 0, "-", "-", "-"], ["begin", "", "g"], ["begin", "", "f"], ["check"], ["end"]])
    execs.append([["expect", "", "f", 0, 0, 0, "-", "-", "-"], ["ignoreothers"], ["begin", "", "h"], ["param", "", "p", "B|1"], ["ret", "", "int/d", "call", enc_int("int", 9)],
                  ["disable"], ["expect", "", "g", 1, 0, 0, "-", "-", "-"], ["begin", "", "f"], ["enable"], ["begin", "", "f"], ["check"], ["end"]])
    execs.append([["expect", "s", "f", 1, 0, 0, "-", "-", enc_int("int", 4)], ["begin", "s", "f"], ["ret", "s", "int", "support"], ["begin", "", "f"], ["check"], ["end"]])
    return execs + scope_matrix(tns)


def use_cmp(S, tn):
    """scope S compares an object of type tn that agrees with the expected one in the first field only"""
    return [["expect", S, "f", 1, 0, 0, "p=O|%s|1,2" % tn, "-", "-"], ["begin", S, "f"], ["param", S, "p", "O|%s|1,3" % tn], ["ret", S, "value", "call"], ["check"], ["end"]]


def use_cpy(S, tn):
    """scope S copies an output parameter of type tn"""
    return [["expect", S, "f", 1, 0, 0, "-", "x=%s:2a00ff01" % tn, "-"], ["begin", S, "f"], ["outparam", S, "x", tn], ["ret", S, "value", "call"], ["check"], ["end"]]


KINDS = (("installcmp", ("whole", "first"), use_cmp), ("installcpy", ("plain", "inv"), use_cpy))


def scope_matrix(tns):
    """comparators and copiers are per scope: every ordered pair of distinct scopes among the global one and two children installs a
    function for ONE type name - every combination of the two comparison (copy) functions, in that order - and then each of the two
    scopes is used: the verdict (the bytes) must be the ones of the function that scope has.  Also: two installations in the global
    scope before a child exists, and removal (from the global scope) followed by a new installation."""
    execs = []
    scopes = ["", "s", "t"]
    n = 0
    for op, modes, use in KINDS:
        for m1 in modes:
            for m2 in modes:
                for A in scopes:
                    for B in scopes:
                        if A == B:
                            continue
                        tn = tns[n % len(tns)]
                        n += 1
                        for S in (A, B):
                            execs.append([[op, A, tn, m1], [op, B, tn, m2]] + use(S, tn))
                tn = tns[n % len(tns)]
                n += 1
                for S in scopes[:2]:
                    execs.append([[op, "", tn, m1], [op, "", tn, m2]] + use(S, tn))                         # twice, then a new child
                    execs.append([[op, "", tn, m1], ["removeall", ""], [op, "s", tn, m2]] + use(S, tn))      # removed, then the child only
                    execs.append([[op, "s", tn, m1], [op, "", tn, m2], ["clear"]] + use(S, tn))              # clear() destroys the child
    # an output parameter of a user type is expected only where a copier is in force (the frame of Mock.tla)
    return [e for e in execs if not (e[0][0] == "installcpy" and e[1][0] == "removeall" and any(l[0] == "expect" and l[1] == "" for l in e))]


def removeall_child_family(tns):
    """removeAllComparatorsAndCopiers on a CHILD scope S empties that scope only: what was installed through scope X is still in
    force in scope U afterwards"""
    execs = []
    n = 0
    for op, modes, use in KINDS:
        for X, S, U in (("", "s", ""), ("", "s", "t"), ("t", "s", "t"), ("", "s", "s"), ("s", "s", "s"), ("s", "t", "s")):
            tn = tns[(5 * n) % len(tns)]
            n += 1
            if op == "installcpy" and U == S:
                continue             # no copier left in U: outside the frame
            execs.append([[op, X, tn, modes[n % 2]], ["removeall", S]] + use(U, tn))
        execs.append([[op, "s", tns[n % len(tns)], modes[0]], ["removeall", "s"], [op, "s", tns[n % len(tns)], modes[1]]] + use("s", tns[n % len(tns)]))
    return execs


def default_form(ex, rng):
    """a double expectation whose tolerance is the default one is written, every other time, in the form without a tolerance
    (withParameter(name, double) / withDoubleParameters) - the same scenario for the specification"""
    spelled = "|fin|0|%d" % G.DEFAULT_TOL_Q
    out = []
    for l in ex:
        if l[0] == "expect" and l[6] != "-" and spelled in str(l[6]):
            ps = [(p[:-len(spelled)] + "|dflt|0|0") if (p.split("=", 1)[1].startswith("D|") and p.endswith(spelled) and rng.random() < 0.5) else p
                  for p in str(l[6]).split(";")]
            l = list(l[:6]) + [";".join(ps)] + list(l[7:])
        out.append(l)
    return out


def tolerance_class(ex, i):
    """for a double parameter of an actual call: the kind of tolerance of the expectation(s) it is compared with"""
    l = ex[i]
    cls = set()
    for x in ex[:i]:
        if x[0] == "expect" and x[1] == l[1] and x[6] != "-":
            for p in str(x[6]).split(";"):
                k, v = p.split("=", 1)
                f = v.split("|")
                if k == l[2] and f[0] == "D":
                    cls.add("default" if f[4] == "dflt" else ("nan" if f[4] == "nan" else (("-inf" if f[5] == "1" else "+inf") if f[4] == "inf" else
                            ("zero" if int(f[6]) == 0 else ("negative" if int(f[6]) < 0 else "positive")))))
    return "+".join(sorted(cls)) or "none"


def removes_in_child(ex):
    return any(l[0] == "removeall" and l[1] != "" for l in ex)


HEX = re.compile(r"0x[0-9a-fA-F]+")


def projection(e):
    """what the property compares between the two interfaces, per log line"""
    p = {k: e.get(k) for k in ("op", "r", "has", "outs", "left", "vcount", "reps") if k in e}
    if "val" in e and (e.get("has", True) or e.get("g", "value") != "value"):
        v = dict(e["val"])
        v.pop("tn", None)       # the C tagged union has no type name for objects
        if e.get("op") == "ret" and e.get("g") == "value" and v.get("t") == "double":
            v.pop("tol", None)
        p["val"] = v
    if "text" in e:
        p["text"] = HEX.sub("0xPTR", e["text"])
    if "texts" in e:            # the end of the test: the messages of all the failures the test recorded, in order
        p["texts"] = [HEX.sub("0xPTR", t) for t in e["texts"]]
    return p


def contiguous_calls(ex):
    """the C interface has one static 'current actual call': the sub-calls of a call must follow its actualCall directly"""
    cur = None
    for l in ex:
        if l[0] == "begin":
            cur = l[1]
        elif l[0] in ("param", "outparam") and l[1] != cur:
            return False
        elif l[0] == "object":
            return False
        elif l[0] == "clear":
            cur = None
    return True


def ignored_family(rng):
    """typed getters of the SUPPORT object right after a call the mock ignores (ignoreOtherCalls / disable)"""
    execs = []
    dflt = {"bool": "B|1", "int": enc_int("int", -7), "uint": enc_int("uint", 7), "long": enc_int("long", -2 ** 40), "ulong": enc_int("ulong", 2 ** 40),
            "llong": enc_int("llong", -2 ** 62), "ullong": enc_int("ullong", 2 ** 63 + 5), "str": "S|646566", "double": "D|fin|0|20|fin|0|0",
            "ptr": "P|v|2", "cptr": "P|c|1", "fptr": "P|f|2"}
    for g in sorted(C_GETTERS):
        line = ["ret", "", g, "support"] + ([dflt[g[:-2]]] if g.endswith("/d") else [])
        execs.append([["ignoreothers"], ["begin", "", "h"], ["param", "", "p", "B|1"], line, ["check"], ["end"]])
        execs.append([["disable"], ["begin", "", "h"], line, ["enable"], ["check"], ["end"]])
    return execs


def older_family():
    """a return value read through a scope's support object while the call begun last belongs to another scope"""
    execs = []
    for g in ("value", "int", "str", "bool/d"):
        line = ["ret", "s", g, "support"] + (["B|0"] if g.endswith("/d") else [])
        execs.append([["expect", "s", "f", 1, 0, 0, "-", "-", enc_int("int", 4)], ["expect", "", "g", 1, 0, 0, "-", "-", "S|6162"], ["begin", "s", "f"], ["begin", "", "g"],
                      line, ["check"], ["end"]])
    return execs


def before_any_call_family():
    """a test that reads a return value through the support object before it made any actual call, after an earlier test made one"""
    return [[["expect", "", "f", 1, 0, 0, "-", "-", enc_int("int", 5)], ["begin", "", "f"], ["ret", "", "int", "support"], ["check"], ["end"]],
            [["ret", "", "int", "support"], ["ret", "", "value", "support"], ["end"]]]


def value_class(e):
    """class of an encoded value for divergence keys: its kind; for an object of a user type whether the type name begins like a
    built-in type name"""
    f = str(e).split("|")
    if f[0] != "O":
        return f[0]
    like = [b for b in G.BUILTIN_TYPE_NAMES if f[1].startswith(b)]
    return "obj~" + max(like, key=len) if like else "obj"


def object_pair_class(ex, i):
    """for a user-type parameter of an actual call: the comparison functions installed for its type name so far, and how the actual object
    relates to the expected one(s) of that parameter (the same object / the same content in another object / another content)"""
    l = ex[i]
    f = str(l[3]).split("|")
    if f[0] != "O":
        return ""
    modes = sorted({x[3] for x in ex[:i] if x[0] == "installcmp" and x[2] == f[1]})
    rel = set()
    for x in ex[:i]:
        if x[0] == "expect" and x[1] == l[1] and x[6] != "-":
            for p in str(x[6]).split(";"):
                k, v = p.split("=", 1)
                g = v.split("|")
                if k == l[2] and g[0] == "O" and g[1] == f[1]:
                    rel.add("same-object" if (g[2:] == f[2:] and len(g) == 4 and g[3] != "0") else ("same-content" if g[2] == f[2] else "other-content"))
    return ":cmp-%s:%s" % ("+".join(modes) or "none", "+".join(sorted(rel)) or "unrelated")


def detail(ex, i):
    """what distinguishes the failing call within its operation (part of the divergence key): its arguments' class, and where in
    the test it stands (in a test whose own check has failed / in the teardown)"""
    before = [x[0] for x in ex[:i]]
    return detail_of_call(ex, i) + (":test-already-failed" if "failcheck" in before else "") + (":in-teardown" if "teardown" in before else "")


def detail_of_call(ex, i):
    if i >= len(ex):
        return ""
    l = ex[i]
    op = l[0]
    if op == "ret":
        return ":" + str(l[2])
    if op == "param":
        f = str(l[3]).split("|")
        nsc = len({x[1] for x in ex[:i] if x[0] == "installcmp" and x[2] == f[1]}) if f[0] == "O" else 0
        if f[0] == "D":
            return ":D:tolerance-" + tolerance_class(ex, i)
        return ":" + value_class(l[3]) + object_pair_class(ex, i) + (":comparators-in-%d-scopes" % nsc if nsc > 1 else "")
    if op == "setdata":
        return ":" + value_class(l[3])
    if op == "getdata":
        src = [x for x in ex[:i] if x[0] == "setdata" and x[1] == l[1] and x[2] == l[2]]
        return ":" + (value_class(src[-1][3]) if src else "missing")
    if op in ("installcmp", "installcpy", "removeall"):
        return ":" + ("global" if l[1] == "" else "child")
    if op == "outparam":
        nsc = len({x[1] for x in ex[:i] if x[0] == "installcpy" and x[2] == l[3]})
        return ":" + ("raw" if l[3] == "raw" else "typed") + (":copiers-in-%d-scopes" % nsc if nsc > 1 else "")
    if any(x[0] in ("installcmp", "installcpy") for x in ex[:i]) and op in ("check", "end", "begin", "expect"):
        nsc = len({x[1] for x in ex[:i] if x[0] in ("installcmp", "installcpy")})
        return ":usertypes-in-%d-scope%s" % (nsc, "" if nsc == 1 else "s")
    return ""


def family_detail(family, ex):
    if family == "removeall-in-child-scope":
        return "comparator" if any(l[0] == "installcmp" for l in ex) else "copier"
    return next((l[2] for l in ex if l[0] == "ret"), "?")


def key_fn(mode, family):
    def f(kind, ex, idx, observed):
        op = ex[idx][0] if idx < len(ex) else "?"
        r = observed.get("r", "?") if isinstance(observed, dict) else "?"
        if family:
            return "%s:%s:%s:%s" % (kind, mode, family, family_detail(family, ex))
        return "%s:%s:%s%s:%s" % (kind, mode, op, detail(ex, idx), r)
    return f


def run(ctx):
    quick = ctx.quick
    exe = ctx.build_harness("mock", "asan")
    tcfg = ctx.write_cfg("Trace_Mock", G.trace_cfg())
    pcfg = ctx.write_cfg("Predict_Mock", G.trace_cfg("PSpec", "INVARIANT Predict"))
    saved = {}

    def harness(mode, label):
        def h(s, l):
            r = ctx.run([exe, s, l, mode], timeout=900)
            saved[(label, mode)] = l + ".full"
            if os.path.exists(l):
                shutil.copy(l, l + ".full")
            return r
        return h

    def both(label, execs, meta, family=None):
        before = len(ctx.violations) + len(ctx.known_hits)
        for mode in ("cpp", "c"):
            conform(ctx, "%s-%s" % (label, mode), execs, harness(mode, label), "Trace_Mock", tcfg, pcfg, key_fn(mode, family), tlc_timeout=1800,
                    meta=dict(meta, mode=mode, family=family), max_report=1 if family else 3)
        ctx.evaluations += 2 * sum(len(e) for e in execs)
        # the two interfaces must agree line by line on the projection
        la, lb = read_log(saved[(label, "cpp")]), read_log(saved[(label, "c")])
        flat = [(k, i) for k, e in enumerate(execs) for i in range(len(e) + 1)]       # (+1: the reset line)
        reported = set()
        for j, (a, b) in enumerate(zip(la, lb) if len(la) == len(lb) else []):      # (after a crash the logs are not aligned)
            if projection(a) != projection(b):
                k, i = flat[j] if j < len(flat) else (len(execs) - 1, 0)
                if k in reported:
                    continue
                reported.add(k)
                ex = execs[k]
                op = ex[i][0] if i < len(ex) else "?"
                fields = sorted(f for f in set(projection(a)) | set(projection(b)) if projection(a).get(f) != projection(b).get(f))
                key = "differ:%s%s:%s" % (op, detail(ex, i), ",".join(fields))
                if family:
                    key = "differ:%s:%s" % (family, family_detail(family, ex))
                ctx.diverge(key, "%s: the C interface and the C++ interface disagree at call %d of execution %d (%s): C++ %s / C %s"
                            % (label, i + 1, k, ",".join(fields), json.dumps(projection(a))[:400], json.dumps(projection(b))[:400]),
                            {"meta": dict(meta, mode="c", family=family), "label": label, "kind": "differ", "script": ["\t".join(map(str, l)) for l in ex], "failing_call": i + 1,
                             "cpp": a, "c": b})
                if len(reported) >= (1 if family else 5):
                    break
        if len(la) != len(lb) and len(ctx.violations) + len(ctx.known_hits) == before:
            raise Infra("logs of the two interfaces have different lengths (%d / %d) in %s" % (len(la), len(lb), label))

    if ctx.replay:
        rp = json.load(open(ctx.replay))
        ex = [l.split("\t") for l in rp["script"]]
        both("replay", [ex], rp.get("meta") or {}, family=(rp.get("meta") or {}).get("family"))
        return ctx.finish("replay of one recorded execution in both interfaces", 1)

    # ---- leg 1
    model = {}
    for name, kw in (MC_QUICK if quick else MC_THOROUGH):
        r = ctx.model_check("MC_Mock", ctx.write_cfg("MC_Mock_" + name, G.mc_cfg(**kw)), workers=8, timeout=1500, heap="8g")
        model[name] = {"distinct_states": r.distinct, "depth": r.depth, "wall_s": round(r.wall, 1)}
    ctx.notes["model"] = model

    # ---- leg 2: TLC-generated scenarios + the per-type sweep, both interfaces
    distinct = set()
    allx = []
    source = {}
    for lab, D, nq, nt, kw in GEN:
        n = nq if quick else nt
        g = ctx.tlc("Gen_Mock", ctx.write_cfg("Gen_Mock_" + lab, G.gen_cfg(D, **kw)), workers=8, simulate=n, depth=(D + 5) if n else None, timeout=1500, heap="8g")
        execs = sorted({tuple(tuple(map(str, l)) for l in G.beh_to_exec(h)) for h in g.beh})
        execs = [[list(l) for l in e] for e in execs]
        if not execs:
            raise Infra("no behaviours generated by " + lab)
        ctx.sample({"source": "TLC " + lab, "execution": ["\t".join(l) for l in execs[ctx.rng.randrange(len(execs))]][:14]})
        allx += execs
        source.update({json.dumps(e): lab for e in execs})
    ngen = len(allx)
    allx = [e for e in allx if contiguous_calls(e)]
    main, older, child_removal, origin = [], [], [], []
    for e in allx:
        e2, fam = G.assign_via(e, ctx.rng, True)
        # (a read of an older call's return value puts the scenario into that family, whatever else it does)
        (older if fam else (child_removal if removes_in_child(e2) else main)).append(e2)
        if not fam and not removes_in_child(e2):
            origin.append(source[json.dumps(e)])
    ctx.notes["generated"] = {"behaviours": ngen, "expressible_in_c": len(allx), "family_older_call": len(older), "family_removeall_in_child_scope": len(child_removal)}
    if quick and len(main) > 2500:
        # a sample of 2500: up to 400 behaviours of every generation configuration, the rest from the largest one
        by = {}
        for e, lab in zip(main, origin):
            by.setdefault(lab, []).append(e)
        big = max(by, key=lambda lab: len(by[lab]))
        quota = {lab: min(len(v), 400) for lab, v in by.items()}
        quota[big] = min(len(by[big]), max(400, 2500 - sum(q for lab, q in quota.items() if lab != big)))
        main = [e for lab, v in sorted(by.items()) for e in ctx.rng.sample(v, quota[lab])]
        ctx.notes["quick_sample"] = {lab: "%d of %d" % (quota[lab], len(v)) for lab, v in sorted(by.items())}
    sw = sweep(ctx.rng, quick)
    ctx.sample({"source": "per-type sweep", "execution": ["\t".join(map(str, l)) for l in sw[len(sw) // 2]]})
    # ---- seeded random scenarios restricted to what both interfaces can express
    n = 150 if quick else 4000
    rnd = [G.assign_via(G.random_scenario(ctx.rng, typed=True, c_compatible=True, odd_tolerances=(i % 2 == 0)), ctx.rng, True)[0] for i in range(n)]
    rnd = [default_form(e, ctx.rng) for e in rnd]
    main = [default_form(e, ctx.rng) for e in main]
    ctx.notes["executions"] = {"tlc_generated": len(main), "per_type_sweep": len(sw), "random": len(rnd)}
    both("main", main + sw + rnd, {"leg": "main"})
    # ---- the test around the scenario (a random stream of its own: the scenarios above and the family samples below stay what they are).
    # TLC-generated tests with a body and a teardown; and scenarios of every source above once more as such a test: the body ends at a
    # random point, two times out of three a check of the test itself fails somewhere in it, so that the teardown - the rest of the
    # scenario: further calls, checkExpectations, clear - runs in a test that has already failed
    prng = random.Random(ctx.seed * 7919 + 19)
    genph = []
    for lab, D, nq, nt, kw in GEN_PHASES:
        n = nq if quick else nt
        g = ctx.tlc("Gen_Mock", ctx.write_cfg("Gen_Mock_" + lab, G.gen_cfg(D, **kw)), workers=8, simulate=n, depth=(D + 8) if n else None, timeout=1500, heap="8g")
        execs = sorted({tuple(tuple(map(str, l)) for l in G.beh_to_exec(h)) for h in g.beh})
        execs = [[list(l) for l in e] for e in execs if contiguous_calls(e)]
        if not execs:
            raise Infra("no behaviours generated by " + lab)
        execs = [e2 for e2, fam in (G.assign_via(e, prng, True) for e in execs) if not fam]
        ctx.notes.setdefault("generated_phases", {})[lab] = len(execs)
        if quick and len(execs) > 300:
            execs = prng.sample(execs, 300)
        ctx.sample({"source": "TLC " + lab, "execution": ["\t".join(l) for l in execs[prng.randrange(len(execs))]][:14]})
        genph += execs
    pool = main + sw + rnd
    phased = [x for x in (G.with_phases(e, prng) for e in prng.sample(pool, min(len(pool), 300 if quick else 2000))) if x]
    ctx.sample({"source": "scenario as body + failing check + teardown", "execution": ["\t".join(map(str, l)) for l in phased[0]][:14]})
    ctx.notes["executions"]["tests_with_body_and_teardown"] = {"tlc_generated": len(genph), "derived": len(phased)}
    phased = genph + phased
    both("phases", phased, {"leg": "phases"})
    # ---- the two scenario families in which the C layer's single static "current call" shows (each keyed by its family)
    fam1 = ignored_family(ctx.rng)
    if quick:
        fam1 = ctx.rng.sample(fam1, 2)       # (every execution of these families is rejected and localised separately: ~3 s each)
    both("support-after-ignored", fam1, {"leg": "support-after-ignored"}, family="support-getter-after-ignored-call")
    fam2 = (older_family()[:1] + older[:1]) if quick else (older_family() + older[:200])
    both("older-call", fam2, {"leg": "older-call"}, family="support-getter-of-older-call")
    fam3 = before_any_call_family()
    both("before-any-call", fam3, {"leg": "before-any-call"}, family="support-getter-before-any-call")
    # ---- removal of comparators / copiers in a child scope (keyed by its family)
    fam4 = removeall_child_family(G.user_type_names()) + child_removal[: (4 if quick else 400)]
    both("removeall-in-child-scope", fam4, {"leg": "removeall-in-child-scope"}, family="removeall-in-child-scope")
    allx = main
    for e in allx + sw + rnd + phased:
        ops = [l[0] for l in e]
        if "begin" in ops or "getdata" in ops:
            distinct.add(json.dumps(e))
    cov = coverage(allx + sw + rnd + fam1 + fam2 + fam4)
    tables = {"MockSupport_c": C_SUPPORT_OTHER + sorted(set(C_GETTERS.values())), "MockExpectedCall_c": C_EXPECT,
              "MockActualCall_c": C_ACTUAL + ["hasReturnValue"] + sorted(set(C_GETTERS.values()))}
    missing = [t + "." + n for t, names in tables.items() for n in names if cov.get(t + "." + n, 0) == 0]
    ctx.notes["c_entry_point_coverage"] = {"driven": cov, "never_driven": missing, "not_driven_by_design": NOT_DRIVEN,
                                           "note": "return getters are driven through both tables (MockSupport_c and the MockActualCall_c returned by actualCall)"}
    if missing and not quick:
        raise Infra("entry points of the C function tables never driven: %s" % missing)
    return ctx.finish(
        rule="scenarios = TLC-generated behaviours of Mock (typed return values, typed getters with and without default, output parameters, scopes, "
             "disable/enable, comparators and copiers installed / inherited / removed per scope with five comparison functions (two equalities, never, "
             "always, expected-below-actual) and two copy functions, every comparison function x every pair of expected / actual object (the very same "
             "object, the same content in another object, another content) for one expectation and one call, the data store with objects of user types) + a per-type sweep (every parameter / return type x boundary lattice, every getter on every return type, "
             "data store, every user-type name of mockgen.user_type_names() as parameter / output / data object, every ordered pair of scopes x pair of "
             "functions for one type name, every comparison function x the same object / an equal object / a different object in the global and "
             "in a child scope) + seeded random scenarios expressible in both interfaces (user types installed per scope by "
             "mockgen.install_plan) + scenarios of all these sources as a test with a body, in which a check of the test itself may fail, and a "
             "teardown that goes on asking the mock (TLC: exhaustive for a body of four calls and a teardown of two; mockgen.with_phases); the "
             "failures a test recorded - count, categories and messages, in order - are compared at its end; each is executed twice, through mock() and through mock_c(), as the body of a fixture test; "
             "distinct = distinct scripts with at least one actual call or data read",
        distinct_nontrivial=len(distinct), exhaustive=False,
        assumptions=["doubles: finite values are multiples of 2^-10 (the default tolerance 0.005 = 5 units); an expectation's tolerance may be zero, "
                     "negative, -inf or NaN (the specification states what doubles_equal does: |expected - actual| <= tolerance, the same infinity "
                     "equal to itself, NaN equal to nothing); both expectation forms (with and without a tolerance) in both interfaces",
                     "scenarios expressible in both interfaces: no onObject (absent from the C interface), the sub-calls of one actual call are contiguous, "
                     "a return value is read only after an actual call of the same test (the three families that leave this frame are run and keyed separately)",
                     "failure texts are compared after replacing hexadecimal addresses",
                     "the failing check of the test itself is a LONGS_EQUAL in the body; a test's later mock calls are in its teardown (the body of a failed "
                     "test is left); steps that ran in a test that had already failed are compared only as to what they added to the test's failures (nothing)",
                     "an object read back through the C tagged union carries no type name; only its content is compared",
                     "user types: objects are records of two ints, the comparison functions are 'all fields' / 'first field only' / 'never' / 'always' / "
                     "'expected first field below the actual one' (a comparator need not be reflexive or symmetric; it alone decides, also when expected and "
                     "actual are one and the same object - scripts say which object holds a content: one of its own or the n-th shared one), the copy functions 'bytes' / "
                     "'bytes inverted' (4-byte output objects); an output parameter of a user type is expected only where a copier is in force ('No way to "
                     "copy' is not modelled); comparators and copiers are removed only while no expectation exists (an expectation keeps the function it "
                     "bound); the harness addresses the call's scope again before a user-type parameter, as the fluent form does",
                     "a child scope created after several installations for one type name in the global scope sees the OLDEST of them (MockSupport::clone "
                     "copies the list in reverse): modelled as the C++ interface behaves, the reference of this property"])
