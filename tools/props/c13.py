"""C13 - SimpleString operations equal their textbook meaning, are memory-safe, buffers returned exactly once with their size (SimpleStr.tla)."""
import os, json
from vlib.conform import conform
from vlib.core import Infra
from bhelp import conform_all, chunk, log_of

# symbolic size_t values beyond every string (SimpleStr.tla HugeNames; harness/simplestr.cpp num_of knows their values)
HUGE = ["SIZE_MAX", "SIZE_MAX-1", "SIZE_MAX-2", "SIZE_MAX-3", "SIZE_MAX/2+1", "SIZE_MAX/2", "2^32", "2^32-1", "2^32+1", "2^31", "2^31+1"]


def tla_set(names):
    return "{" + ", ".join('"%s"' % n for n in names) + "}"


LATTICE = {
    "quick": dict(NObj=3, A2="{97, 98}", L2=2, A1="{97, 10, 1, 127, 128, 255, 92}", L1=2, AC="{97, 65, 193}", LC=2,
                  AN="{32, 45, 43, 49, 57, 97}", LN=3, WL=2, PMax=4, BitPos="{0, 7, 63}", GA="{97, 98}", GL=2,
                  HG=tla_set(["SIZE_MAX", "SIZE_MAX-1", "SIZE_MAX-2", "SIZE_MAX/2+1", "2^32", "2^31"]), GH=tla_set(["SIZE_MAX", "SIZE_MAX-1"])),
    "thorough": dict(NObj=3, A2="{97, 98}", L2=3, A1="{97, 10, 1, 127, 128, 255, 92}", L1=3, AC="{97, 65, 193}", LC=3,
                     AN="{32, 45, 43, 49, 57, 97}", LN=4, WL=3, PMax=5, BitPos="{0, 7, 8, 31, 63}", GA="{97, 98}", GL=2,
                     HG=tla_set(HUGE), GH=tla_set(["SIZE_MAX", "SIZE_MAX-2", "2^32"])),
}
CONST = """CONSTANTS
  NObj = %(NObj)s
  A2 = %(A2)s
  L2 = %(L2)s
  A1 = %(A1)s
  L1 = %(L1)s
  AC = %(AC)s
  LC = %(LC)s
  AN = %(AN)s
  LN = %(LN)s
  WL = %(WL)s
  PMax = %(PMax)s
  HG = %(HG)s
  GH = %(GH)s
  BitPos = %(BitPos)s
  GA = %(GA)s
  GL = %(GL)s
"""
MC = "SPECIFICATION MSpec\n" + CONST + "  MaxId = %(MaxId)s\nINVARIANTS TypeOK UniqueIds QuiescentClean ObjectsHaveBuffers OwnRefines OneBufferEach SizesFit\nCONSTRAINT Bounded\nCHECK_DEADLOCK FALSE\n"
GEN = "SPECIFICATION GSpec\n" + CONST + "  D = %(D)s\nINVARIANTS Dump\nCHECK_DEADLOCK FALSE\n"
TRACE = "SPECIFICATION %(spec)s\nCONSTANTS\n  NObj = 3\n%(tail)s\nCHECK_DEADLOCK FALSE\n"
STRFN2 = ["eq", "ne", "contains", "startswith", "endswith", "count", "strcmp", "strstr", "plus", "append", "appendc", "split",
          "eqnocase", "containsnocase"]


def enc(b):
    b = list(b)
    if b == [-1]:
        return "NULL"
    if not b:
        return "-"
    return "".join("%02x" % x for x in b)


def row_to_line(r):
    # a number operand travels as the number, or as the name of the symbolic size (hg[k]) when there is one
    hg = list(r.get("hg") or []) + ["", "", ""]
    nn = [hg[k] if hg[k] else r.get("n%d" % (k + 1), 0) for k in range(3)]
    if r["op"] == "f":
        return ["f", r["fn"], enc(r["s1"]), enc(r["s2"]), enc(r["s3"]), nn[0], nn[1], nn[2]]
    return ["o", r["fn"], r["i"], r["j"], r["k"], enc(r["s1"]), enc(r["s2"]), nn[0], nn[1]]


def key_of(kind, ex, idx, observed):
    if idx >= len(ex):
        return kind + ":?"
    ln = [str(x) for x in ex[idx]]
    if ln[0] == "f":
        return ("%s:%s:%s" % (kind, ln[1], ",".join(ln[2:])))[:150]
    # object call: the history matters; key by the call and the contents before it are in the replay file
    return ("%s:obj-%s:%s" % (kind, ln[1], ",".join(ln[2:])))[:150]


# ---------------------------------------------------------------- seeded random drivers (leg 3)
def rbytes(rng, n, pool=None):
    if pool:
        return [rng.choice(pool) for _ in range(n)]
    return [rng.randrange(1, 256) for _ in range(n)]


def rnd_string(rng, maxlen):
    n = rng.choice([0, 1, 2, 3, 5, 8, 13, maxlen // 2, maxlen])
    r = rng.random()
    if r < 0.4:
        return rbytes(rng, n, [97, 98, 97, 98, 65, 66, 32])          # self-overlapping patterns are likely
    if r < 0.6:
        return rbytes(rng, n, [97, 10, 13, 9, 1, 27, 127, 128, 200, 255, 92, 34])
    return rbytes(rng, n)


SPACES = [9, 10, 11, 12, 13, 32]              # isspace() in the "C" locale (SimpleStr.tla SpaceBytes)
NOT_SPACES = [1, 8, 14, 27, 28, 31, 127, 128, 133, 160, 255, 0x30 + 0x80, 0x20 + 0x80, 0x0B + 0x80]   # neighbours and look-alikes


def rnd_number_text(rng):
    """What AtoI / AtoU may be given: a run of white space drawn from the whole class (now and then interrupted by a byte
    that only looks like white space), signs, digits (the run stays <= 9 digits: SimpleStr.tla PreN), then any bytes."""
    s = [rng.choice(SPACES) for _ in range(rng.choice([0, 0, 1, 1, 2, 3, 5]))]
    if rng.random() < 0.15:
        s.insert(rng.randint(0, len(s)), rng.choice(NOT_SPACES) if rng.random() < 0.6 else rng.randrange(1, 256))
    s += [ord(c) for c in rng.choice(["", "", "", "-", "+", "--", "+-", "- "])]
    s += [rng.randrange(48, 58) for _ in range(rng.randint(0, 6))]
    r = rng.random()
    if r < 0.5:
        s += rbytes(rng, rng.randint(1, 2))                               # any byte after the number: digits extend it (<= 9)
    elif r < 0.7:
        s += [rng.choice(SPACES + NOT_SPACES + [45, 43, 46, 120, 101])] + [rng.randrange(48, 58)]
    return s


def F(fn, s1=(), s2=(), s3=(), n1=0, n2=0, n3=0):
    """n1..n3: a number, or the name of a symbolic size (HUGE)."""
    nn = [n1, n2, n3]
    return {"op": "f", "fn": fn, "s1": list(s1), "s2": list(s2), "s3": list(s3),
            "n1": 0 if isinstance(n1, str) else n1, "n2": 0 if isinstance(n2, str) else n2, "n3": 0 if isinstance(n3, str) else n3,
            "hg": [x if isinstance(x, str) else "" for x in nn]}


def random_pure(rng, n):
    rows = []
    for _ in range(n):
        r = rng.random()
        a = rnd_string(rng, 60)
        if r < 0.25:
            fn = rng.choice(STRFN2)
            rr = rng.random()
            if rr < 0.3 and a:
                i = rng.randrange(len(a)); j = rng.randrange(i, len(a) + 1); b = a[i:j]
            elif rr < 0.4:
                b = list(a)
            elif rr < 0.5 and a:
                b = [x ^ 32 if (65 <= x <= 90 or 97 <= x <= 122) else x for x in a]
            else:
                b = rnd_string(rng, 6)
            rows.append(F(fn, a, b))
        elif r < 0.35:
            to = a[rng.randrange(len(a)):][:rng.randint(1, 3)] if a and rng.random() < 0.8 else rnd_string(rng, 3)
            rows.append(F("replacestr", a, to, rnd_string(rng, 5)))
        elif r < 0.5:
            L = len(a)
            pos = rng.choice([0, 1, L - 1, L, L + 1, L + 7, 1000]) if L else rng.choice([0, 1, 2, 9])
            pos = max(0, pos)
            fn = rng.choice(["substr1", "substr2", "findfrom", "copytobuf", "strncpy", "strncmp", "at", "repeat"])
            hugepos = rng.choice(HUGE) if rng.random() < 0.25 else None       # a position / length beyond every string
            ch = rng.choice(a) if a and rng.random() < 0.7 else rng.randrange(1, 256)
            if fn == "substr1":
                rows.append(F(fn, a, n1=hugepos or pos))
            elif fn == "substr2":
                amount = rng.choice([0, 1, L, L + 1, 2 ** 31 - 1, rng.randint(0, L + 2)] + [rng.choice(HUGE)] * 3)
                rows.append(F(fn, a, n1=pos if (hugepos is None or rng.random() < 0.5) else hugepos, n2=amount))
            elif fn == "findfrom":
                rows.append(F(fn, a, n1=hugepos or pos, n2=ch))
            elif fn == "copytobuf":
                rows.append(F(fn, a, n1=hugepos or min(pos, 400), n2=1 if rng.random() < 0.1 else 0))
            elif fn == "strncpy":
                rows.append(F(fn, a, n1=min(pos, 400)))
            elif fn == "strncmp":
                b = list(a);
                if b and rng.random() < 0.6:
                    b[rng.randrange(len(b))] = rng.randrange(1, 256)
                rows.append(F(fn, a, b, n1=hugepos or pos))
            elif fn == "at":
                rows.append(F(fn, a, n1=min(pos, L)))
            else:
                rows.append(F(fn, a[:10], n1=rng.randint(0, 6)))
        elif r < 0.62:
            fn = rng.choice(["ctor", "copy", "lower", "printable", "size", "isempty", "strlen", "fromornull", "printableornull", "format"])
            s = a if rng.random() < 0.8 else rbytes(rng, rng.choice([98, 99, 100, 101, 130, 300]))
            rows.append(F(fn, s))
        elif r < 0.7:
            ch = rng.choice(a) if a and rng.random() < 0.7 else rng.randrange(1, 256)
            ch2 = rng.choice(a) if a and rng.random() < 0.5 else rng.randrange(1, 256)
            fn = rng.choice(["find", "replacech", "subfromtill", "pad"])
            if fn == "find":
                rows.append(F(fn, a, n1=ch))
            elif fn == "pad":
                rows.append(F(fn, a, rnd_string(rng, 40), n1=rng.randrange(1, 256)))
            else:
                rows.append(F(fn, a, n1=ch, n2=ch2))
        elif r < 0.78:
            rows.append(F(rng.choice(["atoi", "atou"]), rnd_number_text(rng)))
        elif r < 0.86:
            fn = rng.choice(["dec", "udec", "hex", "brackets", "ordinal", "hexschar", "bool", "char", "tolower"])
            if fn == "dec":
                v = rng.choice([rng.randint(-2 ** 31 + 1, 2 ** 31 - 1), rng.randint(-1000, 1000)])
            elif fn == "hexschar":
                v = rng.randint(-128, 127)
            elif fn in ("char",):
                v = rng.randint(1, 255)
            elif fn == "tolower":
                v = rng.randint(0, 255)
            elif fn == "bool":
                v = rng.randint(0, 3)
            else:
                v = rng.choice([rng.randint(0, 2 ** 31 - 1), rng.randint(0, 2000)])
            rows.append(F(fn, n1=v))
        elif r < 0.94:
            blk = [rng.choice([0, 0, 1, 255, rng.randrange(256)]) for _ in range(rng.choice([0, 1, 2, 5, 17, 127, 128, 129, 200]))]
            fn = rng.choice(["binary", "binaryornull", "binarysize", "binarysizeornull", "memcmp"])
            if fn == "memcmp":
                b2 = list(blk)
                if b2 and rng.random() < 0.6:
                    b2[rng.randrange(len(b2))] = rng.randrange(256)
                rows.append(F(fn, blk, b2, n1=rng.randint(0, len(blk))))
            else:
                rows.append(F(fn, [-1] if fn.endswith("ornull") and rng.random() < 0.1 else blk))
        else:
            V = sorted(set(rng.randrange(64) for _ in range(rng.randint(0, 12))))
            M = sorted(set(rng.randrange(64) for _ in range(rng.randint(0, 40))))
            rows.append(F("maskedbits", V, M, n3=rng.choice([1, 2, 3, 4, 8, 9, 16, rng.choice(HUGE)])))
    return rows


def O(fn, i=0, j=0, k=0, s1=(), s2=(), n1=0, n2=0):
    return {"op": "o", "fn": fn, "i": i, "j": j, "k": k, "s1": list(s1), "s2": list(s2),
            "n1": 0 if isinstance(n1, str) else n1, "n2": 0 if isinstance(n2, str) else n2,
            "hg": [x if isinstance(x, str) else "" for x in (n1, n2)]}


def random_objects(rng, n):
    """A long history on the pool of three objects.  Only an upper bound of each length is tracked (to keep strings
    below ~300 bytes); contents are never computed here."""
    ex, bound = [], {1: None, 2: None, 3: None}
    for _ in range(n):
        live = [q for q in bound if bound[q] is not None]
        dead = [q for q in bound if bound[q] is None]
        r = rng.random()
        if (r < 0.15 or not live) and dead:
            i = rng.choice(dead); s = rnd_string(rng, 24)
            ex.append(O("new", i, s1=s)); bound[i] = len(s)
            continue
        if not live:
            continue
        i = rng.choice(live); j = rng.choice(live); k = rng.choice(live)
        if r < 0.2:
            ex.append(O("del", i)); bound[i] = None
        elif r < 0.32:
            ex.append(O("assign", i, j)); bound[i] = bound[j]
        elif r < 0.44:
            if bound[i] + bound[j] > 300:
                ex.append(O("sub", i, i, n1=0, n2=5)); bound[i] = min(bound[i], 5)
            else:
                ex.append(O("append", i, j)); bound[i] = bound[i] + bound[j]
        elif r < 0.52:
            s = rnd_string(rng, 10)
            if bound[i] + len(s) <= 300:
                ex.append(O("appendlit", i, s1=s)); bound[i] += len(s)
        elif r < 0.6:
            ex.append(O("replacech", i, n1=rng.choice([97, 98, 32, rng.randrange(1, 256)]), n2=rng.randrange(1, 256)))
        elif r < 0.72:
            to = rng.choice([[97], [97, 97], [97, 98], [98, 97, 98], [32], rnd_string(rng, 3)])
            w = rnd_string(rng, 4)
            nb = bound[i] * max(1, len(w))
            if nb <= 300:
                ex.append(O("replacestr", i, s1=to, s2=w)); bound[i] = max(bound[i], nb)
        elif r < 0.78:
            if i != j:
                ex.append(O("pad", i, j, n1=rng.choice([32, 48, 200])))
                bound[i] = bound[j] = max(bound[i], bound[j])
        elif r < 0.86:
            L = bound[j]
            ex.append(O("sub", i, j, n1=rng.choice([0, 1, 2, L, L + 1, max(0, L - 1), rng.choice(HUGE)]),
                        n2=rng.choice([0, 1, 3, L, 2 ** 31 - 1, rng.choice(HUGE), rng.choice(HUGE)]))); bound[i] = bound[j]
        elif r < 0.9:
            ex.append(O("lower", i, j)); bound[i] = bound[j]
        elif r < 0.96:
            if bound[j] + bound[k] <= 300:
                ex.append(O("plus", i, j, k)); bound[i] = bound[j] + bound[k]
        else:
            if bound[j] * 4 <= 300:
                ex.append(O("printable", i, j)); bound[i] = bound[j] * 4
    ex.append(O("end"))
    return ex


def run(ctx):
    quick = ctx.quick
    exe = ctx.build_harness("simplestr", "asan")
    tcfg = ctx.write_cfg("Trace_SimpleStr", TRACE % {"spec": "TSpec", "tail": "INVARIANT TInv\nPOSTCONDITION Accepted"})
    pcfg = ctx.write_cfg("Predict_SimpleStr", TRACE % {"spec": "PSpec", "tail": "INVARIANT Predict"})
    harness = lambda s, l: ctx.run([exe, s, l], timeout=20 if quick else 240)    # deadline: a hang of the real code is a divergence

    if ctx.replay:
        rp = json.load(open(ctx.replay))
        ex = [l.split("\t") for l in rp["script"]]
        conform(ctx, "replay", [ex], harness, "Trace_SimpleStr", tcfg, pcfg, key_of, meta=rp.get("meta"), env={"JAVA_TOOL_OPTIONS": "-Xss256m"})
        return ctx.finish("replay of one recorded execution", 1)

    lat = dict(LATTICE["quick" if quick else "thorough"])
    # ---- leg 1: laws of the textbook operators + buffer discipline of the object machine (intended design)
    mcc = dict(lat); mcc.update(NObj=2, GL=1, MaxId=8 if quick else 10)
    mc = ctx.write_cfg("MC_SimpleStr", MC % mcc)
    r = ctx.model_check("MC_SimpleStr", mc, workers=4, timeout=1500, heap="6g")
    ctx.notes["model"] = {"distinct_states": r.distinct, "transitions": r.generated, "depth": r.depth, "lattice": lat,
                          "laws": "StrLaws (ASSUME, evaluated by TLC)"}

    nontrivial = set()
    nexec = 0

    def go(label, execs, harness=harness, max_parts=6):
        nonlocal nexec
        # long strings make the recursive textbook operators (replace, split) deep: give TLC's threads a big stack
        for lab in conform_all(ctx, label, execs, harness, "Trace_SimpleStr", tcfg, pcfg, key_of, meta={"source": label},
                               env={"JAVA_TOOL_OPTIONS": "-Xss256m"}, max_parts=max_parts):
            for e in log_of(ctx, lab):
                if e.get("ev"):
                    nontrivial.add(json.dumps({k_: v_ for k_, v_ in e.items() if k_ not in ("ev",)}, sort_keys=True))
        nexec += len(execs)
        ctx.evaluations += sum(len(e) for e in execs)

    # ---- leg 2a: the table of pure calls written by TLC, executed on the real class, validated by Trace_SimpleStr
    g = dict(lat); g["D"] = 0
    gcfg = ctx.write_cfg("Gen_SimpleStr_table", GEN % g)
    table = os.path.join(ctx.work, "rows.ndjson")
    ctx.tlc("Gen_SimpleStr", gcfg, workers=1, env={"FAMILY": "all", "OUT": table}, timeout=1500, heap="6g", count=False)
    rows = [json.loads(l) for l in open(table) if l.strip()]
    if len(rows) < 1000:
        raise Infra("table generation produced only %d rows" % len(rows))
    by_fn = {}
    for r_ in rows:
        by_fn[r_["fn"]] = by_fn.get(r_["fn"], 0) + 1
    ctx.notes["table_rows"] = len(rows)
    # the C-library-like primitives classify single bytes: the table must take every byte value through them, and the numeric
    # parsers must see every white-space byte in front of a number (a generator that lost them would make the check blind)
    first = {}
    for r_ in rows:
        if r_["fn"] in ("atoi", "atou") and r_["s1"]:
            first.setdefault(r_["fn"], set()).add(r_["s1"][0])
    single = {fn: {r_["s1"][0] for r_ in rows if r_["fn"] == fn and len(r_["s1"]) == 1} for fn in ("lower", "printable", "strcmp", "eqnocase", "strlen")}
    lows = {r_["n1"] for r_ in rows if r_["fn"] == "tolower"}
    white = {tuple(r_["s1"][:2]) for r_ in rows if r_["fn"] in ("atoi", "atou") and len(r_["s1"]) > 2 and all(b in SPACES for b in r_["s1"][:2])}
    if any(first.get(fn, set()) != set(range(1, 256)) for fn in ("atoi", "atou")) or any(v != set(range(1, 256)) for v in single.values()) \
            or lows != set(range(256)) or len(white) != len(SPACES) ** 2:
        raise Infra("the table does not take every byte value through AtoI/AtoU/ToLower/lowerCase/printable/StrCmp")
    ctx.notes["byte_values_per_primitive"] = {"atoi/atou first byte": 255, "tolower": 256, "lower/printable/strcmp/eqnocase/strlen of one byte": 255,
                                              "white-space pairs in front of a number": len(white)}
    ctx.notes["table_rows_by_function"] = by_fn
    ctx.rng.shuffle(rows)
    # the empty string repeated a symbolic number of times: a loop over the count never ends, so these calls run one per
    # execution under a short deadline of their own (a hang ends the harness process and would hide the rest of a chunk)
    rep = [r_ for r_ in rows if r_["fn"] == "repeat" and r_["hg"][0]]
    rows = [r_ for r_ in rows if not (r_["fn"] == "repeat" and r_["hg"][0])]
    ctx.notes["table_rows_symbolic_sizes"] = sum(1 for r_ in rows + rep if any(r_["hg"]))
    if not rep or ctx.notes["table_rows_symbolic_sizes"] < 100:
        raise Infra("the table contains no calls with sizes beyond every string")
    # counts near SIZE_MAX first: there a loop over the count cannot end, while 2^31 iterations merely take seconds
    go("table_repeat_huge", [[row_to_line(r_)] for r_ in sorted(rep, key=lambda r_: (not r_["hg"][0].startswith("SIZE_MAX"), r_["hg"][0]))],
       harness=lambda s_, l_: ctx.run([exe, s_, l_], timeout=5), max_parts=2)
    execs = chunk([row_to_line(r_) for r_ in rows], 200)
    ctx.sample({"source": "TLC table (Gen_SimpleStr)", "execution": ["\t".join(map(str, l)) for l in execs[0][:8]]})
    go("table", execs)

    # ---- leg 2b: object behaviours generated by TLC (exhaustive to depth D, then simulation)
    g = dict(lat); g.update(D=2, GL=1 if quick else 2)
    gcfg = ctx.write_cfg("Gen_SimpleStr_bfs", GEN % g)
    gb = ctx.tlc("Gen_SimpleStr", gcfg, workers=4, env={"FAMILY": "none", "OUT": table}, timeout=1500, heap="6g")
    g = dict(lat); g.update(D=14)
    gcfg = ctx.write_cfg("Gen_SimpleStr_sim", GEN % g)
    gs = ctx.tlc("Gen_SimpleStr", gcfg, workers=4, simulate=60 if quick else 1500, depth=20, env={"FAMILY": "none", "OUT": table}, timeout=1500, heap="6g")
    behs = [[row_to_line(o) for o in h] for h in gb.beh + gs.beh]
    if len(behs) < 100:
        raise Infra("only %d object behaviours generated" % len(behs))
    ctx.notes["object_behaviours"] = {"bfs": len(gb.beh), "simulated": len(gs.beh)}
    ctx.sample({"source": "TLC object behaviour (simulation)", "execution": ["\t".join(map(str, l)) for l in behs[-1][:10]]})
    go("objects", behs)

    # ---- leg 3: seeded random calls with all byte values and long strings; long histories on the object pool
    npure, nhist, hlen = (4000, 10, 250) if quick else (120000, 150, 600)
    rr = random_pure(ctx.rng, npure)
    execs = chunk([row_to_line(r_) for r_ in rr], 200)
    ctx.sample({"source": "seeded random pure calls", "execution": ["\t".join(map(str, l)) for l in execs[0][:6]]})
    go("random_pure", execs)
    hist = [[row_to_line(o) for o in random_objects(ctx.rng, hlen)] for _ in range(nhist)]
    go("random_objects", hist)
    return ctx.finish(
        rule="executions = (a) chunks of <= 200 pure calls from the table written by TLC (Gen_SimpleStr: every operation over small alphabets, all "
             "positions 0..PMax; every byte value 1..255 (memory blocks 0..255) through every C-library-like primitive and every operation that "
             "classifies bytes; AtoI/AtoU on white-space runs from the whole isspace() class x sign x digits x trailing bytes) and from a seeded random driver (all byte values, strings up to 300 bytes), (b) object behaviours generated by TLC "
             "(exhaustive to depth 2, simulated to depth 14) and seeded random histories on a pool of 3 objects; every call runs on the real SimpleString "
             "under ASan+UBSan with a recording string allocator; results, pool contents and allocator events are validated by Trace_SimpleStr; "
             "distinct non-trivial = distinct logged calls that caused allocator events",
        distinct_nontrivial=len(nontrivial), exhaustive=False,
        assumptions=["count = positions at which the pattern occurs (overlapping counted, '' once per byte); split keeps the delimiter at the end of each piece; "
                     "replace = non-overlapping left-to-right; printable() of bytes >= 0x80: kept or \\xHH both accepted",
                     "StrNCpy: bytes after the copied terminator may be untouched or zero; AtoI/AtoU on numbers of <= 9 digits; white space = the six isspace() bytes of the C locale "
                     "(0x09..0x0D, 0x20), AtoU takes no sign (as the source says)",
                     "numeric formatters on values that fit 32-bit TLC integers; %s formats only for formatted construction",
                     "sizes beyond every string (symbolic, HugeNames) are passed to subString(2), findFrom, StrNCmp, copyToBuffer (real buffer = string + terminator), "
                     "the repeat constructor (empty string only) and StringFromMaskedBits; not to StrNCpy / MemCmp / at(), whose contract makes n bytes accessible",
                     "memory safety is observed by ASan/UBSan on exact-size heap operands on the executed calls, not proved"],
        extra={"executions": nexec})
