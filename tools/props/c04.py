"""C04 - leak accounting is exact for every allocation history (LeakTable.tla)."""
import os, json
from vlib.conform import conform

MC = """SPECIFICATION Spec
CONSTANTS
  Addrs = {%(addrs)s}
  P = 3
  MaxSeq = %(maxseq)d
  Kinds = {"new", "malloc"}
  Sizes = {%(sizes)s}
  MaxStage = 1
INVARIANTS TypeOK Refines NoDupAddr ChainsDisjoint InRightBucket TotalsExact ReportExact SeqUnique SeqBelowCounter
CHECK_DEADLOCK FALSE
"""
GEN = """SPECIFICATION GSpec
CONSTANTS
  Addrs = {%(addrs)s}
  P = %(P)d
  MaxSeq = %(maxseq)d
  Kinds = {%(kinds)s}
  Sizes = {%(sizes)s}
  MaxStage = %(maxstage)d
  D = %(D)d
INVARIANTS Dump
CHECK_DEADLOCK FALSE
"""
TRACE = """SPECIFICATION %(spec)s
CONSTANTS
  Addrs = {0}
  P = %(P)d
  MaxSeq = 1000000
  Kinds = {"new"}
  Sizes = {1}
  MaxStage = 250
%(tail)s
CHECK_DEADLOCK FALSE
"""
FIELDS = ["op", "a", "a2", "sz", "k", "ln", "q"]


def beh_to_exec(h):
    return [[st[f] for f in FIELDS] for st in h]


def random_exec(rng, n, naddr, P):
    """Seeded random history biased to the corners: many blocks per bucket, frees from the middle of
    chains, period/stage changes interleaved, releases of unknown addresses."""
    live, ex, seq, stage, period = {}, [], 1, 0, "disabled"
    addrs = list(range(naddr))
    for _ in range(n):
        r = rng.random()
        if r < 0.34 and len(live) < 10:
            a = rng.choice([x for x in addrs if x not in live])
            k = rng.choice(["new", "malloc"]); sz = rng.choice([0, 1, 5, 8, 16, 17, 40])
            ex.append(["alloc", a, 0, sz, k, 100 + seq % 900, ""]); live[a] = (stage,); seq += 1
        elif r < 0.56 and live:
            a = rng.choice(sorted(live)); ex.append(["free", a, 0, 0, "", 0, ""]); del live[a]
        elif r < 0.60:
            a = rng.choice(addrs); ex.append(["free", a, 0, 0, "", 0, ""]); live.pop(a, None)
        elif r < 0.68 and live:
            a = rng.choice(sorted(live))
            cand = [x for x in addrs if x not in live or x == a]
            a2 = rng.choice(cand); sz = rng.choice([1, 8, 17, 33])
            ex.append(["realloc", a, a2, sz, "", 100 + seq % 900, ""]); del live[a]; live[a2] = (stage,); seq += 1
        elif r < 0.70:
            a = rng.choice([x for x in addrs if x not in live]); ex.append(["realloc", a, a, 1, "", 0, ""])
        elif r < 0.80:
            op = rng.choice(["enable", "disable", "startchecking", "stopchecking"])
            ex.append([op, 0, 0, 0, "", 0, ""])
        elif r < 0.84:
            if stage < 200 and rng.random() < 0.6:
                ex.append(["incstage", 0, 0, 0, "", 0, ""]); stage += 1
            elif stage > 0:
                ex.append(["decstage", 0, 0, 0, "", 0, ""]); stage -= 1
        elif r < 0.87:
            ex.append(["freestage", 0, 0, 0, "", 0, ""]); live = {a: v for a, v in live.items() if v[0] != stage}
        elif r < 0.90:
            # which blocks go depends on their period: let the spec decide; generator only needs an over-approximation of live
            q = rng.choice(["all", "disabled", "enabled", "checking"])
            ex.append(["report", 0, 0, 0, "", 0, "all"])
            ex.append(["clear", 0, 0, 0, "", 0, q])
            ex.append(["clear", 0, 0, 0, "", 0, "all"]); live = {}
        elif r < 0.93:
            ex.append(["demote", 0, 0, 0, "", 0, ""])
        elif r < 0.94:
            ex.append(["freenull", 0, 0, 0, "", 0, ""])
        elif r < 0.965:
            # the lookup operator delete / free do before the release (poisoning): of a live block mostly, sometimes of any address
            a = rng.choice(sorted(live)) if live and rng.random() < 0.8 else rng.choice(addrs)
            ex.append(["inval", a, 0, 0, "", 0, ""])
        else:
            ex.append(["report", 0, 0, 0, rng.choice(["", "keep", "keep"]), 0, rng.choice(["all", "disabled", "enabled", "checking"])])
    return ex


def stage_exec(rng, n, P):
    """Allocation stages entered, left without release, re-entered and released, over a few addresses that share two buckets: records of
    different stages end up in every order within a chain (a lower-stage record in front of a higher-stage one after a stage is re-entered).
    The generator only tracks which addresses may be live; which blocks a stage release frees is the specification's business."""
    addrs = [0, P, 2 * P, 3 * P, 1, P + 1, 2 * P + 1]
    live, ex, stage, seq = set(), [[rng.choice(["enable", "startchecking"]), 0, 0, 0, "", 0, ""]], 0, 1
    for _ in range(n):
        r = rng.random()
        free_addrs = [a for a in addrs if a not in live]
        if r < 0.36 and free_addrs:
            a = rng.choice(free_addrs)
            ex.append(["alloc", a, 0, rng.choice([1, 8]), rng.choice(["new", "malloc"]), 100 + seq % 900, ""]); live.add(a); seq += 1
        elif r < 0.56 and stage < 6:
            ex.append(["incstage", 0, 0, 0, "", 0, ""]); stage += 1
        elif r < 0.72 and stage > 0:
            ex.append(["decstage", 0, 0, 0, "", 0, ""]); stage -= 1
        elif r < 0.86:
            ex.append(["freestage", 0, 0, 0, "", 0, ""])
            ex.append(["report", 0, 0, 0, "", 0, "all"])
            # resynchronise the generator's idea of what is live: release everything that may be left, unknown addresses answer "non-allocated"
            for a in sorted(live):
                if rng.random() < 0.5:
                    ex.append(["free", a, 0, 0, "", 0, ""])
            live = set()
            ex.append(["clear", 0, 0, 0, "", 0, "all"])
        elif r < 0.93 and live:
            a = rng.choice(sorted(live)); ex.append(["free", a, 0, 0, "", 0, ""]); live.discard(a)
        else:
            ex.append(["report", 0, 0, 0, "", 0, rng.choice(["all", "enabled", "checking"])])
    return ex


def many_leaks_exec(rng, n):
    """More outstanding blocks than the detector's fixed report buffer can list: the report is cut, the stated total must not be."""
    ex = [[rng.choice(["enable", "startchecking", "disable"]), 0, 0, 0, "", 0, ""]]
    addrs = rng.sample(range(200), n)
    for i, a in enumerate(addrs):
        ex.append(["alloc", a, 0, rng.choice([1, 3, 8, 24, 40]), rng.choice(["new", "malloc"]), 101 + i, ""])
        if i % 7 == 3:
            ex.append([rng.choice(["enable", "startchecking", "stopchecking"]), 0, 0, 0, "", 0, ""])
    for q in ("all", "enabled", "checking", "disabled"):
        ex.append(["report", 0, 0, 0, rng.choice(["", "keep"]), 0, q])
    for a in addrs[::3]:
        ex.append(["free", a, 0, 0, "", 0, ""])
    ex.append(["report", 0, 0, 0, "", 0, "all"])
    ex.append(["demote", 0, 0, 0, "", 0, ""])
    ex.append(["report", 0, 0, 0, "", 0, "enabled"])
    ex.append(["clear", 0, 0, 0, "", 0, "enabled"])
    ex.append(["report", 0, 0, 0, "", 0, "all"])
    return ex


def run(ctx):
    quick = ctx.quick
    exe = ctx.build_harness("leak", "asan")

    def key_fn(kind, ex, idx, observed):
        op = ex[idx][0] if idx < len(ex) else "?"
        return "%s:%s" % (kind, op)

    if ctx.replay:
        rp = json.load(open(ctx.replay))
        ex = [l.split("\t") for l in rp["script"]]
        P = rp["meta"]["P"]; sep = rp["meta"]["sep"]
        tcfg = ctx.write_cfg("Trace_LeakTable", TRACE % {"spec": "TSpec", "P": P, "tail": "INVARIANT TInv\nPOSTCONDITION Accepted"})
        pcfg = ctx.write_cfg("Predict_LeakTable", TRACE % {"spec": "PSpec", "P": P, "tail": "INVARIANT Predict"})
        conform(ctx, "replay", [ex], lambda s, l: ctx.run([exe, s, l, str(P), str(sep), str(sep)], timeout=120), "Trace_LeakTable", tcfg, pcfg, key_fn, meta=rp["meta"])
        return ctx.finish("replay of one recorded execution", 2)

    # ---- leg 1: the specification satisfies the property (exhaustive, small constants)
    mc = ctx.write_cfg("MC_LeakTable", MC % ({"addrs": "0, 3, 6", "maxseq": 3, "sizes": "1"} if quick else
                                             {"addrs": "0, 3, 6, 1", "maxseq": 4, "sizes": "1"}))
    r = ctx.model_check("LeakTable", mc, workers=16, timeout=3000, heap="24g")
    ctx.notes["model"] = {"distinct_states": r.distinct, "depth": r.depth,
                          "constants": ("3 addresses in one bucket, MaxSeq=3" if quick else "4 addresses (3 in one bucket), MaxSeq=4") + ", P=3, 2 kinds, MaxStage=1"}

    # ---- leg 2: behaviours generated by TLC from the specification, executed on the real detector
    total_exec = 0
    nontrivial = set()
    for (lab, P, gen, sim, depth) in [
        ("bfs", 3, {"addrs": "0, 3, 1", "P": 3, "maxseq": 3, "kinds": '"new"', "sizes": "1", "maxstage": 1, "D": 3 if quick else 4}, None, None),
        ("sim", 3, {"addrs": "0, 3, 6, 9, 1, 4, 2, 5", "P": 3, "maxseq": 40, "kinds": '"new", "malloc"', "sizes": "1, 8, 17", "maxstage": 2,
                    "D": 24}, 40 if quick else 400, 30),
        ("sim5", 5, {"addrs": "0, 5, 10, 15, 1, 6, 2, 3, 4, 9", "P": 5, "maxseq": 60, "kinds": '"new", "malloc"', "sizes": "0, 5, 40",
                     "maxstage": 3, "D": 40}, 15 if quick else 150, 45),
    ]:
        gcfg = ctx.write_cfg("Gen_LeakTable_" + lab, GEN % gen)
        g = ctx.tlc("Gen_LeakTable", gcfg, workers=8, simulate=sim, depth=depth, timeout=1800, heap="8g")
        execs = [beh_to_exec(h) for h in g.beh]
        if not execs:
            from vlib.core import Infra
            raise Infra("no behaviours generated by " + lab)
        ctx.sample({"source": "TLC " + lab, "execution": ["\t".join(map(str, l)) for l in execs[ctx.rng.randrange(len(execs))]][:12]})
        tcfg = ctx.write_cfg("Trace_LeakTable_%d" % P, TRACE % {"spec": "TSpec", "P": P, "tail": "INVARIANT TInv\nPOSTCONDITION Accepted"})
        pcfg = ctx.write_cfg("Predict_LeakTable_%d" % P, TRACE % {"spec": "PSpec", "P": P, "tail": "INVARIANT Predict"})
        for sep in (0, 1):
            conform(ctx, "%s-sep%d" % (lab, sep), execs, lambda s, l, P=P, sep=sep: ctx.run([exe, s, l, str(P), str(sep), str(sep)], timeout=(120 if ctx.quick else 600)),
                    "Trace_LeakTable", tcfg, pcfg, key_fn, meta={"P": P, "sep": sep})
        total_exec += 2 * len(execs)
        ctx.evaluations += 2 * sum(len(e) for e in execs)
        for e in execs:
            if any(l[0] in ("free", "realloc", "clear", "freestage", "demote") for l in e):
                nontrivial.add(json.dumps(e))

    # ---- leg 3: long seeded random histories on the real detector, validated against the specification
    P = 5
    tcfg = ctx.write_cfg("Trace_LeakTable_r", TRACE % {"spec": "TSpec", "P": P, "tail": "INVARIANT TInv\nPOSTCONDITION Accepted"})
    pcfg = ctx.write_cfg("Predict_LeakTable_r", TRACE % {"spec": "PSpec", "P": P, "tail": "INVARIANT Predict"})
    nexec, nops = (6, 500) if quick else (40, 2500)
    execs = [random_exec(ctx.rng, nops, 64, P) for _ in range(nexec)]
    execs += [many_leaks_exec(ctx.rng, n) for n in ([13, 20, 45] if quick else [5, 12, 14, 16, 20, 30, 45, 70, 120, 180])]
    execs += [stage_exec(ctx.rng, 80, P) for _ in range(25 if quick else 300)]
    ctx.sample({"source": "seeded random driver", "execution": ["\t".join(map(str, l)) for l in execs[0][:12]]})
    for sep in (0, 1):
        conform(ctx, "random-sep%d" % sep, execs, lambda s, l, sep=sep: ctx.run([exe, s, l, str(P), str(sep), str(sep)], timeout=(120 if ctx.quick else 600)),
                "Trace_LeakTable", tcfg, pcfg, key_fn, tlc_timeout=1800, meta={"P": P, "sep": sep})
    ctx.evaluations += 2 * sum(len(e) for e in execs)
    for e in execs:
        nontrivial.add(json.dumps(e[:50]))
    return ctx.finish(
        rule="executions = TLC-generated behaviours of LeakTable (exhaustive to depth D over 3 addresses; simulation to depth 24/40 over "
             "8-10 addresses in 3/5 buckets) plus seeded random histories, each run on the real MemoryLeakDetector in both bookkeeping "
             "layouts; distinct = distinct call sequences; non-trivial = contains a release, realloc, clear, stage release or demotion",
        distinct_nontrivial=len(nontrivial), exhaustive=False,
        assumptions=["the arena allocator of the harness returns the addresses chosen by the behaviour; real bucket = address mod MEMORY_LEAK_HASH_TABLE_SIZE",
                     "report entries are compared as a multiset (order is a diagnostic)",
                     "the report op clears the detector's text buffer with startChecking() and restores the period, except for reports marked 'keep' (no clearing, as when "
                     "the final report follows a test's leak report): there the report is the text the call appended to what the buffer already held"])
