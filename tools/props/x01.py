"""X01 (extra, not a listed property) - MemoryAccountant statistics are exact (MemAccount.tla). Grows the specification over the
leak-detection subsystem (DESIGN.md section 10). Not registered in MANIFEST.checks; run with tools/check X01."""
import json
from vlib.conform import conform
from vlib.core import Infra

CONSTS = """CONSTANTS
  Sizes = {%s}
  CacheChoices <- %s
"""


def key_fn(kind, ex, idx, observed):
    return "%s:%s" % (kind, ex[idx][0] if idx < len(ex) else "?")


def run(ctx):
    import os
    exe = ctx.build_harness("memaccount", "asan")
    mc = ctx.write_cfg("MC_MemAccount", "SPECIFICATION Spec\n" + CONSTS % ("1, 4, 5, 9", "CC") + "CONSTRAINT %s\nINVARIANTS" % ("Bound3" if ctx.quick else "Bound4") + " Sane CacheRows\nCHECK_DEADLOCK FALSE\n")
    r = ctx.model_check("MC_MemAccount", mc, workers=8, timeout=1200)
    ctx.notes["model"] = {"distinct_states": r.distinct}
    tr = "SPECIFICATION %s\n" + CONSTS % ("1", "CC") + "%s\nCHECK_DEADLOCK FALSE\n"
    tcfg = ctx.write_cfg("Trace_MemAccount", tr % ("TSpec", "INVARIANT TInv\nPOSTCONDITION Accepted"))
    pcfg = ctx.write_cfg("Predict_MemAccount", tr % ("PSpec", "INVARIANT Predict"))
    execs = []
    g = ctx.tlc("GenMC_MemAccount", ctx.write_cfg("Gen_MemAccount_bfs", "SPECIFICATION GSpec\n" + CONSTS % ("1, 4, 9", "CC") + "  D = %d\nINVARIANT Dump\nCHECK_DEADLOCK FALSE\n" % (3 if ctx.quick else 4)),
                workers=8, timeout=900)
    execs += [[[s["op"], s["sz"], ",".join(map(str, s["cs"]))] for s in h] for h in g.beh]
    g = ctx.tlc("GenMC_MemAccount", ctx.write_cfg("Gen_MemAccount_sim", "SPECIFICATION GSpec\n" + CONSTS % ("0, 1, 2, 3, 4, 5, 7, 8, 9, 15, 16, 17, 64, 100", "CCbig") + "  D = 30\nINVARIANT Dump\nCHECK_DEADLOCK FALSE\n"),
                workers=8, simulate=40 if ctx.quick else 500, depth=35, timeout=900)
    execs += [[[s["op"], s["sz"], ",".join(map(str, s["cs"]))] for s in h] for h in g.beh]
    if not execs:
        raise Infra("no behaviours")
    ctx.sample({"source": "TLC Gen_MemAccount", "execution": [" ".join(map(str, l)) for l in execs[-1][:10]]})
    conform(ctx, "memaccount", execs, lambda s, l: ctx.run([exe, s, l], timeout=300), "TraceMC_MemAccount", tcfg, pcfg, key_fn)
    ctx.evaluations += sum(len(e) for e in execs)
    nt = len({json.dumps(e) for e in execs if any(l[0] == "dealloc" for l in e)})
    return ctx.finish(rule="TLC-generated MemoryAccountant histories (exhaustive to depth 3/4, simulation to depth 30 over 14 sizes and 6 cache configurations) "
                           "run on the real class; non-trivial = contains a deallocation", distinct_nontrivial=nt,
                      assumptions=["extra coverage, not one of the listed properties"])
