"""C17 - pointers set for a test are restored after it; plugin actions nest properly (TestRun.tla + PluginChain.tla)."""
import json
from props import testrun_common as T
from vlib.core import Infra


def random_program(rng, ntests, maxset):
    evs = ["ok", "ok", "failCpp", "failC", "throwStd", "throwOther"]
    tests = []
    for i in range(ntests):
        ph = []
        big = rng.random() < 0.25
        for p in range(3):
            k = rng.choice([0, 1, 2, 5]) if not big else rng.choice([0, maxset // 2, maxset - 1, maxset, maxset + 3])
            sets = [(rng.randrange(1, T.NLOC + 1) if rng.random() < 0.7 else 1 + (j % 3), rng.randrange(1, 60)) for j in range(k)]
            ph.append((sets, rng.choice(evs)))
        tests.append({"g": "G", "n": "t%d" % i, "ign": False, "ph": ph})
    plugins = [("P%d" % (j + 1), rng.random() < 0.7, rng.random() < 0.2) for j in range(rng.choice([0, 1, 3, 5]))]
    repeat = rng.choice([1, 2])
    if rng.random() < 0.5:
        # plugins installed and removed (by name, at any chain position, including the head) between the tests of one run
        repeat = 1
        names = [p[0] for p in plugins]; q = 0
        for t in tests[:-1]:
            ops = []
            for _ in range(rng.choice([0, 0, 1, 1, 2])):
                if names and rng.random() < 0.5:
                    n = rng.choice(names); names.remove(n); ops.append(("remove", n))
                else:
                    q += 1; n = "Q%d" % q; names.insert(0, n); ops.append(("install", n))
            t["after"] = ops
    return {"repeat": repeat, "reverse": False, "shuffle": False, "runIgnored": False, "gf": [], "nf": [], "plugins": plugins,
            "draws": None, "seed": 7, "tests": tests}


def run(ctx):
    quick = ctx.quick
    exe = ctx.build_harness("testrun", "asan")
    cap, maxset = T.probe_constants(ctx, exe)
    if ctx.replay:
        rp = json.load(open(ctx.replay))
        if rp.get("trace_module") == "Trace_PluginChain":
            from props import pluginchain
            return pluginchain.replay(ctx)
        return T.replay(ctx, exe, cap, maxset)
    nontrivial = set()
    # ---- leg 1: redirections around the table limit (MaxSet=2 in the model), repeated targets, failing tests, plugin chains
    cfg = ctx.write_cfg("MC_TestRun_ptr", T.MC % {"spec": "MCSpec", "cap": cap, "exc": "TRUE", "maxset": 2, "locs": "1, 2", "mode": "ptr",
                        "maxtests": 1 if quick else 2, "evs": '"ok"', "invs": T.INVS})
    r = ctx.model_check("MC_TestRun", cfg, workers=16, timeout=3000, heap="16g")
    ctx.notes["model"] = {"distinct_states": r.distinct, "depth": r.depth}
    # ---- leg 2: TLC-generated programs
    gcfg = ctx.write_cfg("Gen_TestRun_ptr", T.MC % {"spec": "GSpec", "cap": cap, "exc": "TRUE", "maxset": 2, "locs": "1, 2", "mode": "ptr",
                         "maxtests": 1, "evs": '"ok"', "invs": "Dump"})
    g = ctx.tlc("Gen_TestRun", gcfg, workers=8, timeout=2400, heap="8g")
    progs = [T.prog_from_beh(b) for b in g.beh]
    if not progs:
        raise Infra("no programs generated")
    ctx.sample({"source": "TLC Gen_TestRun ptr", "program": ["\t".join(map(str, l)) for l in T.prog_lines(progs[len(progs) // 2])]})
    tcfg, pcfg = T.trace_cfgs(ctx, "gen", cap, maxset, True)
    T.run_programs(ctx, exe, "gen-ptr", progs, tcfg, pcfg)
    for p in progs:
        if any(sets for t in p["tests"] for sets, _ in t["ph"]):
            nontrivial.add(json.dumps(p, sort_keys=True))
    # ---- leg 3: random tests with 0..MAX_SET+3 redirections (the real limit), repeated targets, every outcome, plugin chains
    n = (12, 12) if quick else (120, 25)
    progs = [random_program(ctx.rng, ctx.rng.randrange(1, n[1]), maxset) for _ in range(n[0])]
    ctx.sample({"source": "seeded random driver", "program": [l[:160] for l in ("\t".join(map(str, l)) for l in T.prog_lines(progs[0])[:5])]})
    T.run_programs(ctx, exe, "random", progs, tcfg, pcfg, tlc_timeout=2400, heap="12g")
    for p in progs:
        nontrivial.add(json.dumps(p, sort_keys=True))
    # ---- plugin chain: install / remove-by-name / enable / disable sequences (PluginChain.tla)
    from props import pluginchain
    pluginchain.run_legs(ctx, nontrivial)
    return ctx.finish(
        rule="programs = tests whose phases redirect pointers through UT_PTR_SET (0..MAX_SET+3 redirections, repeated targets) and end in any outcome, "
             "under chains of recording plugins (enabled/disabled, error-reporting); TLC-generated (model limit 2) plus seeded random with the real limit "
             "%d; validated: pointer values after every test, table never exceeded (failure instead), pre order = chain order, post = reverse; "
             "plus plugin-chain histories (install/remove/enable/disable) from PluginChain.tla" % maxset,
        distinct_nontrivial=len(nontrivial),
        assumptions=["SetPointerPlugin is installed by runAllTestsMain as the chain head", "MAX_SET read from the header: %d" % maxset])
