"""X03 (extra, not a listed property) - MemoryReporterPlugin reports exactly what happens inside tests (MemReport.tla)."""
import json
from vlib.conform import conform
from vlib.core import Infra

CFG = "SPECIFICATION %s\nCONSTANTS\n  Groups = {%s}\n  Fams = {\"new\", \"newarr\", \"malloc\"}\n  Sizes = {%s}\n  MaxOps = %d\n%s\nCHECK_DEADLOCK FALSE\n"


def key_fn(kind, ex, idx, observed):
    return "%s:%s" % (kind, ex[idx][0] if idx < len(ex) else "?")


def to_exec(h, rng):
    ex = []
    for t in h:
        if rng.random() < 0.5:
            ex.append(["outside"])
        ops = ",".join("%s:%s:%d" % (o["k"], o["fam"], o["sz"]) for o in t["ops"]) or "-"
        ex.append(["test", t["g"], t["nextg"] or "-", ops])
    ex.append(["outside"])
    return ex


def random_exec(rng):
    groups = ["A", "B", "AB", "C"]
    seq = []
    for g in (rng.sample(groups, rng.randrange(1, 5))):
        seq += [g] * rng.randrange(1, 4)
    h = []
    for i, g in enumerate(seq):
        ops = [{"k": rng.choice(["alloc", "alloc", "free"]), "fam": rng.choice(["new", "newarr", "malloc"]), "sz": rng.choice([0, 1, 7, 100, 4000])} for _ in range(rng.randrange(0, 7))]
        h.append({"g": g, "ops": ops, "nextg": seq[i + 1] if i + 1 < len(seq) else ""})
    return h


def run(ctx):
    exe = ctx.build_harness("memreport", "asan")
    r = ctx.model_check("MemReport", ctx.write_cfg("MC_MemReport", CFG % ("Spec", '"A", "B"', "1, 2", 2, "INVARIANTS Bracketed NotWrappedBetweenTests")), workers=8, timeout=900)
    ctx.notes["model"] = {"distinct_states": r.distinct}
    tcfg = ctx.write_cfg("Trace_MemReport", CFG % ("TSpec", '"A"', "1", 1, "INVARIANT TInv\nPOSTCONDITION Accepted"))
    pcfg = ctx.write_cfg("Predict_MemReport", CFG % ("PSpec", '"A"', "1", 1, "INVARIANT Predict"))
    g = ctx.tlc("Gen_MemReport", ctx.write_cfg("Gen_MemReport", CFG % ("GSpec", '"A", "B", "AB"', "1, 9", 2, "  D = 5\nINVARIANT Dump")), workers=8,
                simulate=60 if ctx.quick else 800, depth=8, timeout=900)
    execs = [to_exec(h, ctx.rng) for h in g.beh]
    execs += [to_exec(random_exec(ctx.rng), ctx.rng) for _ in range(40 if ctx.quick else 600)]
    if not execs:
        raise Infra("no behaviours")
    ctx.sample({"source": "TLC Gen_MemReport / seeded random", "execution": [" ".join(map(str, l)) for l in execs[0]]})
    conform(ctx, "memreport", execs, lambda s, l: ctx.run([exe, s, l], timeout=300), "Trace_MemReport", tcfg, pcfg, key_fn)
    ctx.evaluations += sum(len(e) for e in execs)
    nt = len({json.dumps(e) for e in execs if sum(1 for l in e if l[0] == "test") >= 2})
    return ctx.finish(rule="runs of 1-10 tests in the default order with 0-6 allocations / releases per test through the current allocators, plus allocations between "
                           "tests; TLC-generated (simulation) and seeded random; non-trivial = at least two tests", distinct_nontrivial=nt,
                      assumptions=["extra coverage, not one of the listed properties", "default order, no filters (with filters the plugin's group-end rule looks at the registry's next test, not the next test that runs)"])
