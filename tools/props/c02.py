"""C02 - every selected test runs exactly once per repetition; selection follows filters; shuffle/reverse permute (TestRun.tla)."""
import json
from props import testrun_common as T
from vlib.core import Infra

OK3 = [([], "ok"), ([], "ok"), ([], "ok")]


def word(rng, letters, lo, hi):
    # the first letter is the more frequent one: runs and repeated prefixes are common
    return "".join(letters[0] if rng.random() < 0.62 else letters[1] for _ in range(rng.randrange(lo, hi + 1)))


def piece(rng, names, letters):
    """a filter text for a binary program: mostly a piece that does occur in one of the names, at a random offset"""
    if names and rng.random() < 0.7:
        s = rng.choice(names)
        n = rng.randrange(2, 5)
        i = rng.randrange(0, max(1, len(s) - n + 1))
        return s[i:i + n]
    return word(rng, letters, 2, 4)


def random_program(rng, ntests, binary=None):
    alpha = ["A", "B", "AB", "BA", "ABA", "C", "x", "xy", "y", "yx", "Test", "Tes"]
    tests = []
    # "binary" programs: names and filter texts are random words over two letters, so that a filter text occurs in a name at every
    # possible offset, also right behind (or overlapping) a partial occurrence of itself ("AAB" in "AAAB", "ABAC" in "ABABAC")
    binary = rng.random() < 0.45 if binary is None else binary
    gwords = [word(rng, "AB", 2, 4) for _ in range(4)]
    nwords = [word(rng, "xy", 2, 4) for _ in range(4)]
    def near_miss(words, letters):
        # the classic hard case of a substring search: a partial occurrence of the text directly followed by (or overlapping) a real one
        if rng.random() < 0.5:
            return word(rng, letters, 1, 7)
        q = rng.choice(words)
        return word(rng, letters, 0, 2) + q[:rng.randrange(1, len(q))] + q + word(rng, letters, 0, 2)
    for i in range(ntests):
        if binary:
            tests.append({"g": near_miss(gwords, "AB"), "n": near_miss(nwords, "xy") + str(i), "ign": rng.random() < 0.2, "ph": OK3})
        else:
            tests.append({"g": rng.choice(alpha[:6]) + rng.choice(["", "", "1"]), "n": rng.choice(alpha[6:]) + str(i if rng.random() < 0.7 else ""),
                      "ign": rng.random() < 0.25, "ph": OK3})
    # keep tests of one group together most of the time (the default registration order), sometimes not
    if rng.random() < 0.7:
        tests.sort(key=lambda t: t["g"])
    def filt(pool):
        return [(rng.choice(pool), rng.random() < 0.4, rng.random() < 0.3) for _ in range(rng.choice([0, 0, 1, 1, 2, 3]))]
    gpool = gwords if binary else ["A", "B", "AB", "A1", "C", ""]
    npool = nwords if binary else ["x", "y", "xy", "Test", "1", "x1"]
    return {"repeat": rng.choice([1, 2, 3]), "reverse": rng.random() < 0.4, "shuffle": rng.random() < 0.6, "runIgnored": rng.random() < 0.4,
            "gf": filt(gpool), "nf": filt(npool), "plugins": [], "draws": None,
            "seed": rng.randrange(1, 100000), "tests": tests, "binary": binary, "gwords": gwords, "nwords": nwords}


def sig(p):
    return (json.dumps([(t["g"], t["n"], t["ign"]) for t in p["tests"]]), p["runIgnored"])


def sessions(rng, base, k):
    """k runs over the SAME registered tests (the harness keeps the shell objects, as a real program's static shells are kept) with
    different filters / order options each time: whatever a shell remembers from one run must not leak into the next"""
    out = [base]
    for _ in range(k - 1):
        v = random_program(rng, 0, base.get("binary"))
        if base.get("binary"):
            v["gf"] = [(rng.choice(base["gwords"]) if rng.random() < 0.6 else piece(rng, [t["g"] for t in base["tests"]], "AB"), f[1], f[2]) for f in v["gf"]]
            v["nf"] = [(rng.choice(base["nwords"]) if rng.random() < 0.6 else piece(rng, [t["n"].rstrip("0123456789") for t in base["tests"]], "xy"), f[1], f[2])
                       for f in v["nf"]]
        v["tests"] = base["tests"]; v["runIgnored"] = base["runIgnored"]
        out.append(v)
    if rng.random() < 0.6:
        # driven through TestRegistry's API with filter objects that live across the runs at fixed addresses and are re-assigned
        for v in out:
            v["api"] = True
            v["early"] = rng.random() < 0.5      # the options reach the registry before the tests do
            v["gf"] = v["gf"][:8]; v["nf"] = v["nf"][:8]
    return out


def run(ctx):
    quick = ctx.quick
    exe = ctx.build_harness("testrun", "asan")
    cap, maxset = T.probe_constants(ctx, exe)
    if ctx.replay:
        return T.replay(ctx, exe, cap, maxset)
    nontrivial = set()
    # ---- leg 1: registries x filters x ignore x reverse/shuffle x repeat, every permutation a shuffle may produce
    cfg = ctx.write_cfg("MC_TestRun_select", T.MC % {"spec": "MCSpec", "cap": cap, "exc": "TRUE", "maxset": 2, "locs": "1, 2", "mode": "select",
                        "maxtests": 2 if quick else 3, "evs": '"ok"', "invs": T.INVS})
    r = ctx.model_check("MC_TestRun", cfg, workers=16, timeout=3000, heap="24g")
    ctx.notes["model"] = {"distinct_states": r.distinct, "depth": r.depth, "constants": ("<=2" if quick else "<=3") + " tests over 3 groups x 2 names x ignored, 4 group-filter lists, "
                          "3 name-filter lists, run-ignored, reverse, shuffle (all permutations), repeat 1..2"}
    # ---- leg 2: TLC-generated programs; the shuffle draws chosen by TLC are forced through the PlatformSpecificRand seam
    gcfg = ctx.write_cfg("Gen_TestRun_select", T.MC % {"spec": "GSpec", "cap": cap, "exc": "TRUE", "maxset": 2, "locs": "1, 2", "mode": "select",
                         "maxtests": 3, "evs": '"ok"', "invs": "Dump"})
    g = ctx.tlc("Gen_TestRun", gcfg, workers=8, simulate=60 if quick else 700, depth=400, timeout=2400, heap="8g")
    progs = [T.prog_from_beh(b) for b in g.beh]
    if not progs:
        raise Infra("no programs generated")
    progs.sort(key=sig)          # programs over the same tests become neighbours: the harness then re-uses the shell objects
    ctx.sample({"source": "TLC Gen_TestRun select (simulation, forced shuffle draws)", "program": ["\t".join(map(str, l)) for l in T.prog_lines(progs[0])]})
    tcfg, pcfg = T.trace_cfgs(ctx, "gen", cap, maxset, True)
    T.run_programs(ctx, exe, "gen-select", progs, tcfg, pcfg)
    for p in progs:
        if len(p["tests"]) >= 2 and (p["gf"] or p["nf"] or p["shuffle"] or p["reverse"]):
            nontrivial.add(json.dumps(p, sort_keys=True))
    # exhaustive small: every program of one test (all filters/flags)
    gcfg = ctx.write_cfg("Gen_TestRun_sel1", T.MC % {"spec": "GSpec", "cap": cap, "exc": "TRUE", "maxset": 2, "locs": "1, 2", "mode": "select",
                         "maxtests": 1, "evs": '"ok"', "invs": "Dump"})
    g = ctx.tlc("Gen_TestRun", gcfg, workers=8, timeout=1200, heap="8g")
    progs = sorted([T.prog_from_beh(b) for b in g.beh], key=sig)
    T.run_programs(ctx, exe, "gen-select1", progs, tcfg, pcfg)
    # ---- leg 3: random registries, real rand() with random seeds, reverse, repeat, filters through the real command line
    n = (25, 30) if quick else (300, 60)
    progs = []
    for _ in range(n[0]):
        progs += sessions(ctx.rng, random_program(ctx.rng, ctx.rng.randrange(0, n[1])), ctx.rng.choice([1, 3, 4]))
    ctx.sample({"source": "seeded random driver", "program": ["\t".join(map(str, l)) for l in T.prog_lines(progs[1])][:10]})
    T.run_programs(ctx, exe, "random", progs, tcfg, pcfg, tlc_timeout=2400, heap="12g")
    for p in progs:
        if len(p["tests"]) >= 2:
            nontrivial.add(json.dumps(p, sort_keys=True))
    return ctx.finish(
        rule="programs = registries (group/name strings with substring relations, ignored tests mixed) x group/name filter lists (substring, strict, "
             "inverted) x run-ignored x reverse x shuffle x repeat; TLC-generated (all programs of one test; simulation for <=3 tests with every "
             "Fisher-Yates draw sequence forced through the rand seam) plus seeded random registries of 0-60 tests with the real rand(); each run by "
             "the real CommandLineTestRunner; validated: order of every repetition is a permutation, per-test start/end events, counters, "
             "group start/end balance; non-trivial = >=2 tests and a filter, shuffle or reverse",
        distinct_nontrivial=len(nontrivial),
        assumptions=["uniformity of the shuffle is not part of the property", "the particular permutation is not checked, only that it is one"])
