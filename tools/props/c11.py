"""C11 - separate-process mode contains every way a test can die (SepProcess.tla)."""
import os, json, re
from vlib.conform import conform, read_log, split_executions, write_script
from vlib.core import Infra, crashed

MC = """SPECIFICATION %(spec)s
CONSTANTS
  RetryBound = %(rb)d
  MaxTests = %(mt)d
  MaxRuns = %(mr)d
  Kinds = {%(kinds)s}
  Options = {%(opts)s}
  ExitCodes = {%(exits)s}
  Signals = {%(sigs)s}
  MaxStops = %(ms)d
  Behaviours <- MCBehaviours
  Reps = {%(reps)s}
INVARIANTS TypeOK OncePerEvent EventsAreFailures Contained ChildFailuresCount StopsResumed WaitsBounded ChildNotLost AllRun RunCounts
%(live)s
CHECK_DEADLOCK FALSE
"""
GEN = """SPECIFICATION GSpec
CONSTANTS
  RetryBound = %(rb)d
  MaxTests = %(mt)d
  MaxRuns = %(mr)d
  Kinds = {%(kinds)s}
  Options = {%(opts)s}
  ExitCodes = {%(exits)s}
  Signals = {%(sigs)s}
  MaxStops = %(ms)d
  Behaviours = {}
  Bursts = {%(bursts)s}
  Faults = %(faults)s
  Reps = {%(reps)s}
INVARIANTS Dump
CHECK_DEADLOCK FALSE
"""
TRACE = """SPECIFICATION %(spec)s
CONSTANTS
  RetryBound = %(rb)d
  MaxTests = 100000
  MaxRuns = 100000
  Kinds = {}
  Options = {}
  ExitCodes = {}
  Signals = {}
  MaxStops = 0
  Behaviours = {}
%(tail)s
CHECK_DEADLOCK FALSE
"""
PLACES = ["setup", "body", "teardown", "pre", "post"]
REPS = ["pre", "post", "both"]          # plugin actions that report a failure about the test (harness: ReportPlugin)
IGN = {17, 18, 23, 28}
STOP = {19, 20, 21, 22}


PLAIN, BOTH = '"plain"', '"plain", "ignored"'
SEP, SEPRI = '"sep"', '"sep", "ri"'


def beh_to_exec(h):
    ex = []
    for st in h:
        if st["op"] == "begin":
            ex.append(["begin", st["b"], "stub"])
        elif st["op"] in ("fork", "addtest"):
            ex.append([st["op"], st["a"]])
        elif st["op"] == "teststart":
            # b = failures reported by plugin actions about the test (1: by the pre or by the post action, alternating)
            ex.append(["teststart", st["a"]] + ([0, "body", ["none", ["pre", "post"][len(ex) % 2], "both"][st["b"]]] if st["b"] else []))
        elif st["op"] == "wait":
            ex.append(["wait", st["a"], st["b"]])
        else:
            ex.append([st["op"]])
    return ex


class Hist:
    """a history of one registry, written as a script; mirrors which tests of a run execute where (python twin of Place in
    SepProcess.tla - only used to write scripts with the right lines; the judgement is TLC's)"""

    def __init__(self, mode):
        self.mode, self.ex, self.tests, self.sep, self.ri, self.runs = mode, [], [], False, False, 0

    def add(self, kind="plain"):
        self.ex.append(["addtest", kind]); self.tests.insert(0, kind)

    def setsep(self):
        self.ex.append(["setsep"]); self.sep = True

    def setri(self):
        self.ex.append(["setri"]); self.ri = True

    def place(self, kind):
        return "none" if (kind == "ignored" and not self.ri) else "child" if self.sep else "runner"

    def run(self, per_test):
        """per_test(i, n, kind, place) -> (teststart fields, [outcome lines])"""
        self.runs += 1
        self.ex.append(["begin", len(self.tests), self.mode])
        for i, k in enumerate(self.tests):
            start, outcomes = per_test(i, len(self.tests), k, self.place(k))
            self.ex.append(["teststart"] + list(start))
            self.ex += [list(o) for o in outcomes]
            self.ex.append(["endtest"])
        self.ex.append(["end"])


def stub_exec(tests):
    """one separate-process run of plain tests; tests: list of outcome lists, e.g. [("fork","ok"),("wait","eintr",0),("wait","exited",3)]"""
    H = Hist("stub")
    H.setsep()
    for _ in tests:
        H.add()
    H.run(lambda i, n, k, pl: ((), tests[i]))
    return H.ex


def final(kind, arg):
    return [("fork", "ok"), ("wait", kind, arg)]


def stub_sweeps(rng, K, quick):
    """every status word class with its whole numeric range, EINTR runs of every length around the bound"""
    execs = []
    codes = list(range(256)) if not quick else sorted(set([0, 1, 2, 127, 128, 254, 255] + rng.sample(range(256), 40)))
    for i in range(0, len(codes), 16):
        execs.append(stub_exec([final("exited", c) for c in codes[i:i + 16]] + [final("exited", 0)]))
    sigs = list(range(1, 32)) + ([] if quick else list(range(32, 65)))
    execs.append(stub_exec([final("signaled", s) for s in sigs] + [final("exited", 0)]))
    execs.append(stub_exec([[("fork", "ok"), ("wait", "stopped", s), ("wait", "exited", 0)] for s in range(1, 32)]))
    execs.append(stub_exec([[("fork", "ok"), ("wait", "stopped", 19), ("wait", "stopped", 20), ("wait", "eintr", 0), ("wait", "stopped", 19),
                             ("wait", "signaled", 9)], final("exited", 0)]))
    lens = range(0, K + 2) if not quick else sorted(set([0, 1, 2, K - 2, K - 1, K, K + 1]))
    for n in lens:            # n interruptions, then success (only reached while n < K)
        t = [("fork", "ok")] + [("wait", "eintr", 0)] * min(n, K)
        if n < K:
            t.append(rng.choice([("wait", "exited", 0), ("wait", "exited", 1), ("wait", "signaled", 9), ("wait", "signaled", 15)]))
        execs.append(stub_exec([t, final("exited", 0)]))
    # interruptions split around a stop: the count is per test, not per wait
    for a in ([1, K - 2, K - 1] if quick else range(0, K)):
        b = K - a
        t = [("fork", "ok")] + [("wait", "eintr", 0)] * a + [("wait", "stopped", 19)] + [("wait", "eintr", 0)] * b
        execs.append(stub_exec([t, final("exited", 1)]))
    execs.append(stub_exec([[("fork", "fail")], [("fork", "ok"), ("wait", "error", 0)], final("exited", 0), [("fork", "fail")]]))
    return execs


def random_outcomes(rng, K):
    """fork/waitpid outcomes of one forked test"""
    if rng.random() < 0.1:
        return [("fork", "fail")]
    t = [("fork", "ok")]
    eintr = 0
    while True:
        r = rng.random()
        if r < 0.25:
            n = rng.choice([1, 1, 2, 5, K - 1, K])
            n = min(n, K - eintr)
            t += [("wait", "eintr", 0)] * n
            eintr += n
            if eintr >= K:
                break
        elif r < 0.40 and sum(1 for o in t if o[1] == "stopped") < 4:
            t.append(("wait", "stopped", rng.choice([19, 20, 21, 22, 5])))
        elif r < 0.45:
            t.append(("wait", "error", 0)); break
        elif r < 0.75:
            t.append(("wait", "exited", rng.choice([0, 0, 0, 1, 1, rng.randrange(256)]))); break
        else:
            t.append(("wait", "signaled", rng.randint(1, 31))); break
    return t


def random_history(rng, mode, per_test, ntests=(1, 8), always_sep=0.8):
    """a random life of one registry: tests of both kinds added, options set at random points, 1-3 runs, tests added and
    options set between the runs.  The separate-process option is set at the latest before the last run."""
    H = Hist(mode)
    first = ["add"] * rng.randint(*ntests)
    if rng.random() < always_sep:
        first.append("sep")
    if rng.random() < 0.5:
        first.append("ri")
    rng.shuffle(first)
    nruns = rng.choice([1, 1, 2, 2, 3])
    for r in range(nruns):
        ops = first if r == 0 else (["add"] * rng.randint(0, 3) + (["sep"] if not H.sep and rng.random() < 0.6 else [])
                                    + (["ri"] if not H.ri and rng.random() < 0.4 else []))
        if r == nruns - 1 and not H.sep and "sep" not in ops:
            ops.append("sep")
        if r > 0:
            rng.shuffle(ops)
        for o in ops:
            if o == "add":
                H.add("ignored" if rng.random() < 0.35 else "plain")
            elif o == "sep":
                H.setsep()
            else:
                H.setri()
        H.run(per_test)
    return H.ex


def random_stub(rng, K):
    def per_test(i, n, kind, place):
        if place == "child":
            return (), random_outcomes(rng, K)
        if place == "runner":
            return (rng.choice(["pass", "pass", "fail"]), 0, rng.choice(PLACES), rng.choice(["none", "none"] + REPS)), []
        return (), []
    return random_history(rng, "stub", per_test, ntests=(1, 8))


NEVER = [("signal", 11, "body"), ("signal", 9, "setup"), ("exit", 3, "body"), ("fail", 0, "body"), ("signal", 6, "pre")]


def real_sweeps(rng, quick):
    """real children that die in every way at every place, spread over random registry histories (tests of both kinds, run-ignored,
    several runs, tests added between runs): whatever the history, in a separate-process run every executed test is a child"""
    allb = []
    for s in range(1, 32):
        places = PLACES if not quick else [PLACES[s % 5], PLACES[(s + 2) % 5]] if s not in IGN | STOP else PLACES[:3] if s in STOP else [PLACES[s % 5]]
        for p in places:
            allb.append(("signal", s, p))
            if s in IGN | STOP:
                allb.append(("signal-then-fail", s, p))
    codes = list(range(257)) if not quick else sorted(set([0, 1, 2, 127, 128, 255, 256] + rng.sample(range(256), 34)))
    for c in codes:
        for p in (PLACES if not quick else [PLACES[c % 5]]):
            allb.append(("exit", c, p))
    for p in PLACES:
        allb += [("fail", 0, p), ("pass", 0, p)]
    allb += [("stop-twice", 0, "body"), ("stop-twice", 0, "teardown")]
    # the same ways of living and dying, with failures reported by a plugin's pre action, post action or both (the test's own checks
    # passing, or failing as well): a child that reaches its end exits with 1 whoever recorded the failure
    withrep = []
    for p in PLACES:
        for r in REPS:
            withrep += [("pass", 0, p, r), ("fail", 0, p, r)]
    for s in sorted(IGN | STOP):
        for j, p in enumerate(PLACES if not quick else [PLACES[s % 5]]):
            withrep += [("signal", s, p, REPS[(s + j) % 3]), ("signal-then-fail", s, p, REPS[(s + j + 1) % 3])]
    for s in sorted(set(range(1, 32)) - IGN - STOP):
        for p in (PLACES if not quick else [PLACES[(s + 1) % 5]] if s % 3 == 0 else []):
            withrep.append(("signal", s, p, REPS[s % 3]))
    for c in ([0, 1, 2, 255, 256] + ([] if quick else rng.sample(range(3, 255), 20))):
        for j, p in enumerate(PLACES if not quick else [PLACES[c % 5], PLACES[(c + 2) % 5]]):
            withrep.append(("exit", c, p, REPS[(c + j) % 3]))
    withrep += [("stop-twice", 0, "body", r) for r in REPS]
    allb += withrep
    rng.shuffle(allb)
    pool = list(allb)

    def per_test(i, n, kind, place):
        if place == "child":
            # every dying test is followed by tests that must still run; a passing test closes each run
            return (pool.pop() if pool and i < n - 1 else ("pass", 0, "body")), []
        if place == "runner":       # a run without the option: outside C11, the test only passes or fails a check
            return (rng.choice(["pass", "pass", "fail"]), 0, rng.choice(PLACES), rng.choice(["none", "none"] + REPS)), []
        return rng.choice(NEVER) + (rng.choice(["none"] + REPS),), []   # an ignored test that is not run: its body would be fatal, and is never executed

    execs = []
    while pool:
        execs.append(random_history(rng, "real", per_test, ntests=(4, 10), always_sep=0.9))
    return execs, len(allb), len(withrep)


def run(ctx):
    quick = ctx.quick
    exe = ctx.build_harness("sepproc", "plain")

    # ---- constant from the code: how many waitpid calls the parent makes when every one is interrupted
    rc, out, to = ctx.run([exe, "--probe-retries"], timeout=60)
    m = re.search(r'"waitpid_calls":(\d+),"failures":(\d+)', out or "")
    if to or not m:
        ctx.diverge("probe:eintr-forever:hang" if to else "probe:eintr-forever:crash",
                    "the parent did not come back from a child whose every waitpid is interrupted (%s)" % (crashed(rc, out) or "no result"),
                    {"kind": "probe", "output_tail": (out or "")[-2000:]})
        return ctx.finish("probe only", 0)
    K, pf = int(m.group(1)), int(m.group(2))
    if K > 2000:
        ctx.diverge("probe:eintr-forever:unbounded-retry", "interrupted waits are retried without bound (more than 2000 waitpid calls)", {"kind": "probe", "waitpid_calls": K})
        return ctx.finish("probe only", 0)
    if K < 2 or pf != 1:
        ctx.diverge("probe:eintr-forever:%s" % ("no-retry" if K < 2 else "failures-%d" % pf),
                    "with every waitpid interrupted the parent made %d call(s) and recorded %d failure(s); expected: retries, then exactly one failure" % (K, pf),
                    {"kind": "probe", "waitpid_calls": K, "failures": pf})
        return ctx.finish("probe only", 0)
    RB = K - 2
    ctx.notes["constants_from_code"] = {"waitpid_calls_when_always_interrupted": K, "RetryBound": RB}

    def run_harness(script, logp):
        return ctx.run([exe, script, logp], timeout=900)

    tcfg = ctx.write_cfg("Trace_SepProcess", TRACE % {"spec": "TSpec", "rb": RB, "tail": "INVARIANT TInv\nPOSTCONDITION Accepted"})
    pcfg = ctx.write_cfg("Predict_SepProcess", TRACE % {"spec": "PSpec", "rb": RB, "tail": "INVARIANT Predict"})

    def key_stub(kind, ex, idx, observed):
        if kind == "reject" and observed:
            # named after the rejected log line (the log of a deviating run need not be aligned with the script any more)
            parts = [observed.get("op")] + [str(observed[f]) for f in ("res", "out") if f in observed]
            if observed.get("op") == "endtest" and observed.get("inrunner"):
                parts.append("executed-in-runner")
            return "reject:stub:" + ":".join(parts)
        l = ex[idx] if 0 <= idx < len(ex) else ["?"]
        return "%s:stub:%s" % (kind, ":".join(str(x) for x in l[:2]))

    def conform_real(label, executions):
        """real forks: the log has more lines than the script (fork/wait lines come from the kernel), so localisation is by reset lines"""
        script = os.path.join(ctx.work, label + ".script.tsv")
        logp = os.path.join(ctx.work, label + ".log.ndjson")
        write_script(script, executions)
        rc, out, to = run_harness(script, logp)
        log = read_log(logp)
        nres = sum(1 for e in log if e.get("op") == "reset")
        for e in log:
            if e.get("op") == "harness-error":
                raise Infra("harness error in %s: %s" % (label, e))
        why = crashed(rc, out)
        if why or rc != 0 or nres != len(executions) - 1 or not log or log[-1].get("op") != "end":
            k = min(nres, len(executions) - 1)
            started = [e for e in log if e.get("op") == "teststart"]
            last = started[-1] if started and log[-1].get("op") != "end" else {}
            ctx.diverge("crash:real" + (":in-%s-test" % last.get("kind") if last.get("kind") not in (None, "plain") else ""),
                        "%s: the parent did not survive real children: %s (execution %d; last test started: %s)" % (label, why or "log incomplete, rc=%s" % rc, k, json.dumps(last)),
                        {"label": label, "kind": "crash", "mode": "real", "script": ["\t".join(map(str, l)) for l in executions[k]],
                         "log_tail": log[-12:], "output_tail": (out or "")[-2000:]})
            exs = split_executions(log)
            log = log[:exs[-1][0] - 1] if len(exs) > 1 else []
            executions = executions[:len(exs) - 1]
        offset, reports = 0, 0
        while log:
            with open(logp, "w") as f:
                for e in log:
                    f.write(json.dumps(e) + "\n")
            ok, matched, r = ctx.validate_trace("Trace_SepProcess", tcfg, logp, timeout=900)
            exs = split_executions(log)
            if ok:
                ctx.traces += len(exs)
                break
            fail_line = min(matched, len(log) - 1)
            k = max(i for i, (s, _) in enumerate(exs) if s <= fail_line)
            s, lines = exs[k]
            rel = fail_line - s
            ex = executions[offset + k]
            # the test the rejected line belongs to
            tno = sum(1 for e in lines[:rel + 1] if e.get("op") == "teststart")
            tl = [l for l in ex if l[0] == "teststart"]
            t = tl[tno - 1] if 0 < tno <= len(tl) else ["teststart", "?", "?", "?"]
            t = list(t) + [""] * (5 - len(t))
            if t[4] not in ("", "none"):          # a plugin action reports a failure about the test as well
                t[3] = "%s+plugin-report-%s" % (t[3], t[4])
            observed = lines[rel] if 0 <= rel < len(lines) else None
            tk = ([e for e in lines[:rel + 1] if e.get("op") == "teststart"] or [{}])[-1].get("kind", "plain")
            key = "reject:real:%s%s:%s:%s:at-%s" % ("" if tk == "plain" else tk + ":", t[1], t[2], t[3], (observed or {}).get("op"))
            sub = os.path.join(ctx.work, label + ".sub.ndjson")
            with open(sub, "w") as f:
                for e in lines[:rel + 1]:
                    f.write(json.dumps(e) + "\n")
            try:
                pr = ctx.tlc("Trace_SepProcess", pcfg, workers=1, env={"TRACE": sub, "FROM_LINE_N": str(max(1, rel))}, count=False, timeout=120)
                predicted = pr.beh[-2:]
            except Infra as e:
                predicted = "predict failed: %s" % str(e)[:300]
            what = "%s: trace of real children rejected by Trace_SepProcess at log line %d of execution %d (test %d: child does %s %s in %s): observed %s" % (
                label, rel + 1, offset + k, tno, t[1], t[2], t[3], json.dumps(observed)[:400])
            if r.violated:
                what += " (specification invariant %s violated)" % r.violated
            what += "\nspecification state before/at that line: %s" % json.dumps(predicted)[:700]
            # real children depend on the kernel's scheduling (a child that does not finish within the harness's deadline under heavy load is
            # logged as a hang): a rejection is reported only if running that execution again, on its own, is rejected again
            confirmed = True
            for attempt in (1, 2):
                s2 = os.path.join(ctx.work, "%s.confirm%d.script.tsv" % (label, attempt)); l2 = os.path.join(ctx.work, "%s.confirm%d.log.ndjson" % (label, attempt))
                write_script(s2, [ex])
                rc2, out2, to2 = run_harness(s2, l2)
                if rc2 == 0 and not crashed(rc2, out2):
                    ok2, _, _ = ctx.validate_trace("Trace_SepProcess", tcfg, l2, timeout=900)
                    if ok2:
                        confirmed = False
                        break
            if not confirmed:
                ctx.notes.setdefault("unconfirmed_rejections", []).append({"key": key, "what": what[:300], "accepted_on_rerun": attempt})
            else:
                ctx.diverge(key, what, {"label": label, "kind": "reject", "mode": "real", "script": ["\t".join(map(str, l)) for l in ex],
                                        "log": lines[:rel + 1], "observed": observed, "predicted": predicted})
            ctx.traces += k
            reports += 1
            nxt = exs[k + 1][0] if k + 1 < len(exs) else None
            if nxt is None or reports >= 3:
                break
            log = log[nxt:]
            offset += k + 1

    if ctx.replay:
        rp = json.load(open(ctx.replay))
        ex = [l.split("\t") for l in rp["script"]]
        if rp.get("mode") == "real":
            conform_real("replay", [ex])
        else:
            conform(ctx, "replay", [ex], run_harness, "Trace_SepProcess", tcfg, pcfg, key_stub, end_op="end")
        return ctx.finish("replay of one recorded execution", 1)

    # ---- leg 1: the parent's design has the property for every outcome sequence (safety + termination), bound taken from the code
    # (the first configurations explore the status words of one separate-process run of plain tests; "registry" explores the histories
    # of the registry - kinds of tests, both options in every order, several runs with changes in between - over a small set of outcomes)
    # Reps: failures reported by plugin actions about a test (0 or 1 decide the child's verdict; 2 only lengthens the list in the runner)
    ONE = {"mr": 1, "kinds": PLAIN, "opts": SEP, "reps": "0, 1"}
    LIVE = dict(ONE, spec="FairSpec", live="PROPERTY Terminates")
    SAFE = dict(ONE, spec="Spec", live="", reps="0, 1, 2")
    REG = {"spec": "FairSpec", "live": "PROPERTY Terminates EveryRunEnds", "kinds": BOTH, "opts": SEPRI, "reps": "0" if quick else "0, 1"}
    allsig = ", ".join(map(str, range(1, 32)))
    if quick:
        mcs = [("two-tests", dict(LIVE, rb=RB, mt=2, exits="0, 1", sigs="11, 19", ms=1)),
               ("status-words", dict(LIVE, rb=RB, mt=1, exits="0, 1, 2, 127, 128, 255", sigs=allsig, ms=1)),
               ("registry", dict(REG, rb=RB, mt=2, mr=2, exits="0, 1", sigs="11", ms=0))]
    else:
        mcs = [("two-tests", dict(LIVE, rb=RB, mt=2, exits="0, 1, 255", sigs="9, 11, 17, 19, 20", ms=2)),
               ("status-words", dict(LIVE, rb=RB, mt=1, exits="0, 1, 2, 127, 128, 255", sigs=allsig, ms=2)),
               ("all-status-words-safety", dict(SAFE, rb=RB, mt=1, exits=", ".join(map(str, range(256))), sigs=allsig, ms=1)),
               ("registry", dict(REG, rb=RB, mt=2, mr=3, exits="0, 1", sigs="11", ms=0)),
               ("registry-safety", dict(REG, spec="Spec", live="", rb=RB, mt=3, mr=3, exits="0, 1", sigs="11, 19", ms=1))]
    ctx.notes["model"] = []
    for lab, c in mcs:
        mc = ctx.write_cfg("MC_SepProcess_" + lab, MC % c)
        r = ctx.model_check("MC_SepProcess", mc, workers=8, timeout=1500, heap="8g")
        ctx.notes["model"].append({"config": lab, "distinct_states": r.distinct, "depth": r.depth,
                                   "constants": "RetryBound=%d (from the code), MaxTests=%d, MaxRuns=%d, kinds {%s}, options {%s}, %d exit codes, %d signals, MaxStops=%d; %s"
                                                % (RB, c["mt"], c["mr"], c["kinds"], c["opts"], c["exits"].count(",") + 1, c["sigs"].count(",") + 1, c["ms"],
                                                   "safety and liveness (Terminates under WF(Next))" if c["live"] else "safety only")})

    # ---- leg 2: outcome sequences generated by TLC (and systematic sweeps), fed to the real parent through the fork/waitpid seams
    nontriv = set()
    bursts = "0, 1, %d, %d" % (RB + 1, RB + 2)
    ONE = {"mr": 1, "kinds": PLAIN, "opts": SEP, "faults": "TRUE", "reps": "0"}
    gens = [
        ("bfs1", dict(ONE, rb=RB, mt=1, exits="0, 1, 255", sigs="11, 19", ms=1 if quick else 2, bursts=bursts), None, None),
        ("bfs2", dict(ONE, rb=RB, mt=2, exits="0, 1", sigs="11", ms=1, bursts="0, %d" % (RB + 2) if quick else bursts), None, None),
        # every history of the registry: tests of both kinds, both options set in every order, runs, changes between runs (small outcome alphabet)
        ("registry", {"rb": RB, "mt": 2, "mr": 2 if quick else 3, "kinds": BOTH, "opts": SEPRI, "exits": "0, 1", "sigs": "", "ms": 0, "bursts": "0",
                      "faults": "FALSE", "reps": "0" if quick else "0, 1"}, None, None),
        ("sim", {"rb": RB, "mt": 6, "mr": 3, "kinds": BOTH, "opts": SEPRI, "exits": "0, 1, 2, 127, 255", "sigs": ", ".join(map(str, range(1, 32))), "ms": 3,
                 "bursts": "0, 0, 1, 2, %d, %d" % (RB, RB + 2), "faults": "TRUE", "reps": "0, 0, 1, 2"},
         10 if quick else 100, 600),
    ]
    for lab, c, sim, depth in gens:
        gcfg = ctx.write_cfg("Gen_SepProcess_" + lab, GEN % c)
        g = ctx.tlc("Gen_SepProcess", gcfg, workers=8, simulate=sim, depth=depth, timeout=1500, heap="8g")
        execs = [beh_to_exec(h) for h in g.beh]
        if not execs:
            raise Infra("no behaviours generated by " + lab)
        ctx.sample({"source": "TLC " + lab + " (stubbed fork/waitpid)", "execution": ["\t".join(map(str, l)) for l in execs[ctx.rng.randrange(len(execs))]][:14]})
        conform(ctx, lab, execs, run_harness, "Trace_SepProcess", tcfg, pcfg, key_stub, tlc_timeout=1500, end_op="end")
        ctx.evaluations += sum(len(e) for e in execs)
        nontriv.update(json.dumps(e) for e in execs if any(l[0] == "wait" and l[1] != "exited" or l[0] == "fork" and l[1] == "fail" or (l[0] == "wait" and l[2] != 0)
                                                           or l[0] == "setri" or (l[0] == "addtest" and l[1] == "ignored") for l in e)
                       or sum(1 for l in e if l[0] == "begin") > 1)
    execs = stub_sweeps(ctx.rng, K, quick) + [random_stub(ctx.rng, K) for _ in range(30 if quick else 400)]
    ctx.sample({"source": "systematic sweep (stubbed fork/waitpid)", "execution": ["\t".join(map(str, l)) for l in execs[0][:10]]})
    conform(ctx, "sweep", execs, run_harness, "Trace_SepProcess", tcfg, pcfg, key_stub, tlc_timeout=1500, end_op="end")
    ctx.evaluations += sum(len(e) for e in execs)
    nontriv.update(json.dumps(e) for e in execs)

    # ---- leg 3: real forks: children that die in every way, at every place; the kernel's answers are logged and validated
    execs, nbeh, nrep = real_sweeps(ctx.rng, quick)
    ctx.sample({"source": "real children", "execution": ["\t".join(map(str, l)) for l in execs[0][:10]]})
    conform_real("real", execs)
    ntests = sum(1 for e in execs for l in e if l[0] == "teststart")
    ctx.evaluations += ntests
    nontriv.update(json.dumps(e) for e in execs)
    ctx.notes["real_children"] = {"tests_started": ntests, "dying_behaviours": nbeh, "of_them_with_plugin_reported_failures": nrep, "registry_histories": len(execs),
                                  "runs": sum(1 for e in execs for l in e if l[0] == "begin"),
                                  "histories_with_run_ignored": sum(1 for e in execs if any(l[0] == "setri" for l in e)),
                                  "histories_with_tests_added_between_runs": sum(1 for e in execs if any(l[0] == "addtest" and any(m[0] == "end" for m in e[:i]) for i, l in enumerate(e)))}
    return ctx.finish(
        rule="executions = histories of one real TestRegistry: (a) fork/waitpid outcome sequences generated by TLC from SepProcess.tla (exhaustive for 1 and 2 tests with EINTR bursts of 0, 1 and "
             "around the retry bound; exhaustive registry histories - plain and ignored tests added, separate-process and run-ignored options set in every order, "
             "2-3 runs with tests added / options set between runs; simulation up to 6 tests and 3 runs over all signals) and systematic sweeps (every exit status, every signal as killer and as stopper, "
             "EINTR runs of every length around the bound, seeded random mixes), fed to the real parent code through the PlatformSpecificFork/WaitPid seams; "
             "(b) real forked children that raise each signal 1..31, _exit statuses, fail a check, stop themselves, in setup/body/teardown/plugin pre/post, "
             "each also combined with failures that a second installed plugin reports to the TestResult in its pre action, post action or both "
             "(test's own checks passing or failing): a child that reaches its end exits 1 whoever recorded the failure; "
             "spread over seeded random registry histories (ignored tests with and without run-ignored, several runs, tests added between runs); the log says for every test whether "
             "any of its code executed in the runner process; "
             "every log is validated by TLC; distinct = distinct scripts; non-trivial = contains an outcome other than a clean exit",
        distinct_nontrivial=len(nontriv), exhaustive=False,
        assumptions=["Linux default signal dispositions (terminate / ignore 17,18,23,28 / stop 19-22); whether terminal stop signals take effect is probed at start",
                     "the failure texts are classified by their current wording; unknown wording is only counted",
                     "SIGCONT delivery is observed only with stubbed fork/waitpid (through the harmless child); with real children a missing SIGCONT shows as a child that never ends (6 s deadline)",
                     "plain build (no sanitizer runtime, which would intercept the fatal signals)",
                     "a child that stops for ever, or SIGKILL/SIGSTOP of the parent itself, are outside the statement",
                     "runs of a registry without the separate-process option are outside the statement: there the tests only pass or fail a check",
                     "name/group filters, shuffling and reversing of the test list are not part of the histories"])
