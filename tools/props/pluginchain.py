"""Plugin-chain half of C17 (PluginChain.tla)."""
import json
from vlib.conform import conform
from vlib.core import Infra

MC = """SPECIFICATION Spec
CONSTANTS
  Names = {%s}
INVARIANTS NoDup PostIsReverseOfPre FlagIsTheObjects
PROPERTY RemoveExact
CHECK_DEADLOCK FALSE
"""
GEN = """SPECIFICATION GSpec
CONSTANTS
  Names = {%s}
  D = %d
INVARIANT Dump
CHECK_DEADLOCK FALSE
"""
TRACE = """SPECIFICATION %s
CONSTANTS
  Names = {"P1", "P2", "P3", "P4", "P5", "P6", "null"}
%s
CHECK_DEADLOCK FALSE
"""


def key_fn(kind, ex, idx, observed):
    return "%s:plugin-%s" % (kind, ex[idx][0] if idx < len(ex) else "?")


def cfgs(ctx):
    return (ctx.write_cfg("Trace_PluginChain", TRACE % ("TSpec", "INVARIANT TInv\nPOSTCONDITION Accepted")),
            ctx.write_cfg("Predict_PluginChain", TRACE % ("PSpec", "INVARIANT Predict")))


def replay(ctx):
    exe = ctx.build_harness("pluginchain", "asan")
    rp = json.load(open(ctx.replay))
    ex = [l.split("\t") for l in rp["script"]]
    tcfg, pcfg = cfgs(ctx)
    conform(ctx, "replay", [ex], lambda s, l: ctx.run([exe, s, l], timeout=60), "Trace_PluginChain", tcfg, pcfg, key_fn)
    return ctx.finish("replay of one recorded plugin-chain history", 2)


def run_legs(ctx, nontrivial):
    exe = ctx.build_harness("pluginchain", "asan")
    names5 = ", ".join('"P%d"' % i for i in range(1, 6))
    r = ctx.model_check("PluginChain", ctx.write_cfg("MC_PluginChain", MC % names5), workers=8, timeout=600)
    ctx.notes["plugin_chain_model"] = {"distinct_states": r.distinct}
    tcfg, pcfg = cfgs(ctx)
    execs = []
    g = ctx.tlc("Gen_PluginChain", ctx.write_cfg("Gen_PluginChain_bfs", GEN % ('"P1", "P2", "P3"', 3 if ctx.quick else 4)), workers=8, timeout=900)
    execs += [[[s["op"], s["name"]] for s in h] for h in g.beh]
    g = ctx.tlc("Gen_PluginChain", ctx.write_cfg("Gen_PluginChain_sim", GEN % (names5 + ', "P6", "null"', 16)), workers=8, simulate=120 if ctx.quick else 1500,
                depth=20, timeout=900)
    execs += [[[s["op"], s["name"]] for s in h] for h in g.beh]
    if not execs:
        raise Infra("no plugin-chain behaviours generated")
    ctx.sample({"source": "TLC Gen_PluginChain", "execution": [" ".join(l) for l in execs[-1]]})
    conform(ctx, "pluginchain", execs, lambda s, l: ctx.run([exe, s, l], timeout=300), "Trace_PluginChain", tcfg, pcfg, key_fn)
    ctx.evaluations += sum(len(e) for e in execs)
    for e in execs:
        if any(l[0] == "remove" for l in e):
            nontrivial.add(json.dumps(e))
