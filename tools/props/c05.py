"""C05 - tracked allocations return sound blocks for every size or fail cleanly (LeakBlocks.tla)."""
import json
from vlib.conform import conform
from vlib.core import Infra
from props import leakblocks_common as lb

ALLOC_EPS = lb.FAM_ALLOC
# every SIZE_MAX-k up to well past the point where user bytes + guard + padding + bookkeeping record stop overflowing
# (the exact boundary depends on the layout constants of the build; a seeded change that moved it by one went unnoticed
# when only k<64 and a few hand-picked neighbours were swept)
BIG = [("T", k) for k in range(64)] + [("T", k) for k in range(64, 200)] + \
      [("P", e, d) for e in (31, 32, 33, 47, 62, 63) for d in (-2, -1, 0, 1, 2)]
OVER_CAP = [4609, 5000, 65536, 1000000]      # small numbers the arena cannot satisfy
PAIRS = [(0, 0), (0, ("T", 0)), (("T", 0), 0), (0, ("P", 63, 0)), (1, 5), (5, 1), (3, 3), (2, 4), (7, 11), (64, 64), (1, 4200), (4200, 1), (60, 70),
         (100, 100), (1000, 1000), (32767, 32767),
         (("P", 63, 0), 2), (2, ("P", 63, 0)), (("P", 62, 0), 4), (4, ("P", 62, 0)), (("P", 32, 0), ("P", 32, 0)), (("P", 63, 1), 2), (("P", 61, 1), 8),
         (("P", 33, 0), ("P", 31, 0)), (("P", 31, 0), ("P", 33, 0)), (("P", 32, 1), ("P", 32, 0)), (("P", 32, 1), ("P", 32, 1)), (("P", 60, 0), 16),
         (("P", 60, 0), 32), (("T", 0), 2), (2, ("T", 0)), (("T", 5), 1), (1, ("T", 5)), (("T", 1), ("T", 1)), (("P", 32, -1), ("P", 32, 0)),
         (("P", 31, 0), ("P", 32, 0)), (("P", 63, 0), 1), (("T", 3), ("P", 63, 0))]


def rel(ep):
    return lb.REL_OF[lb.FAM[ep]]


def sweeps(ctx):
    quick = ctx.quick
    L = lb.L
    ex = []
    top = 300 if quick else 4200
    pows = sorted(set(s for e in range(1, 13) for s in (2 ** e - 2, 2 ** e - 1, 2 ** e, 2 ** e + 1, 2 ** e + 2) if 0 <= s <= 4200))
    # A. every size: allocate (the harness fills every user byte), a second block next to it, release both, for every entry point
    eps = ALLOC_EPS if not quick else ["new", "newarrnt", "malloc"]
    sizes = sorted(set(list(range(0, top + 1)) + pows + [4199, 4200]))
    for ep in eps:
        chunk = []
        for sz in sizes:
            chunk += [L("alloc", ep, 0, sz=sz), L("alloc", "malloc" if ep != "malloc" else "newarr", 1, sz=(sz * 7 + 3) % 97),
                      L("release", rel(ep), 0), L("release", "free" if ep != "malloc" else "deletearr", 1)]
            if len(chunk) >= 400:
                ex.append(chunk); chunk = []
        if chunk:
            ex.append(chunk)
    # B. requests that cannot be satisfied: sizes at the top of the range, powers of two, more than the allocator has; with neighbours alive
    for ep in ALLOC_EPS:
        e = [L("alloc", "newarr", 1, sz=33), L("alloc", "malloc", 2, sz=9)]
        for b in BIG + OVER_CAP:
            e.append(L("alloc", ep, 0, sz=b))
        e += [L("release", "deletearr", 1), L("release", "free", 2)]
        ex.append(e)
        # one huge request per execution too (the first divergence of an execution hides the rest)
        if not quick or ep in ("new", "malloc"):
            for b in BIG[:12] + BIG[60:64] + BIG[200:] + OVER_CAP:
                ex.append([L("alloc", "malloc", 2, sz=9), L("alloc", ep, 0, sz=b), L("release", "free", 2)])
    # C. fault point: the underlying allocator refuses the request
    for ep in ALLOC_EPS:
        for sz in (0, 1, 8, 100):
            ex.append([L("alloc", "malloc", 1, sz=5), L("alloc", ep, 0, sz=sz, fault="under"), L("alloc", ep, 0, sz=sz), L("release", rel(ep), 0),
                       L("release", "free", 1)])
    # D. calloc: products around the overflow boundary, zero fill
    for (n, s) in PAIRS:
        for fault in ("none", "under"):
            ex.append([L("alloc", "malloc", 1, sz=5), L("calloc", s=0, sz=n, sz2=s, fault=fault), L("release", "free", 1)])
    for n in range(0, 12 if quick else 40):
        for s in (1, 3, 8, 100):
            ex.append([L("calloc", s=0, sz=n, sz2=s), L("release", "free", 0)])
    # E. realloc: grow, shrink, in place, moved, from NULL, to huge, failing underlying realloc; the old block must survive a failure
    rs = [0, 1, 7, 8, 9, 64, 1000, 4200]
    for old in rs:
        for new in rs + ([("T", 0), ("T", 2), ("T", 10), ("P", 63, 0), 5000] if old in (0, 8, 1000) else []):
            for (s2, fault) in ((0, "none"), (1, "none"), (1, "under"), (0, "under")):
                if quick and (old + (new if isinstance(new, int) else 0) + s2) % 3 == 1:
                    continue
                ok = fault == "none" and isinstance(new, int) and new <= 4200
                ex.append([L("alloc", "malloc", 2, sz=11), L("alloc", "malloc", 0, sz=old), L("realloc", s=0, s2=s2, sz=new, fault=fault),
                           L("realloc", s=s2 if ok else 0, s2=3, sz=5), L("release", "free", 3), L("release", "free", 2)])
    for new in rs + [("T", 1), 5000]:
        for fault in ("none", "under"):
            ok = fault == "none" and isinstance(new, int) and new <= 4200
            ex.append([L("realloc", s=-1, s2=4, sz=new, fault=fault), L("realloc", s=-1, s2=5, sz=6), L("release", "free", 5)] + ([L("release", "free", 4)] if ok else []))
    # F. strdup / strndup: every length, counts below, at and above the length, failing allocation
    lens = list(range(0, 40)) + [100, 255, 256, 1000, 4199] if not quick else [0, 1, 2, 7, 8, 31, 255, 4199]
    for n in lens:
        ex.append([L("strdup", s=0, sz=n), L("release", "free", 0)])
        for m in sorted(set([0, 1, max(n - 1, 0), n, n + 1, 5000])) + [("T", 0), ("P", 63, 0)]:
            ex.append([L("strndup", s=0, sz=n, sz2=m), L("release", "free", 0)])
    for n in (0, 3, 100):
        for fault in ("under",):
            ex.append([L("alloc", "malloc", 1, sz=5), L("strdup", s=0, sz=n, fault=fault), L("strdup", s=0, sz=n), L("release", "free", 0), L("release", "free", 1)])
            ex.append([L("alloc", "malloc", 1, sz=5), L("strndup", s=0, sz=n, sz2=2, fault=fault), L("strndup", s=0, sz=n, sz2=2), L("release", "free", 0), L("release", "free", 1)])
    return ex


def node_fault_sweeps():
    """The separately allocated bookkeeping record cannot be obtained (malloc family); for the new family there is no such request."""
    L = lb.L
    ex = []
    for ep in ALLOC_EPS:
        for sz in (0, 1, 8, 100):
            first_ok = lb.FAM[ep] != "malloc"
            e = [L("alloc", "malloc", 1, sz=5), L("alloc", ep, 0, sz=sz, fault="node"), L("alloc", ep, 3, sz=sz), L("release", rel(ep), 3)]
            if first_ok:
                e.append(L("release", rel(ep), 0))
            ex.append(e + [L("release", "free", 1)])
    for old in (0, 8, 1000):
        for new in (0, 8, 9, 4200):
            for s2 in (0, 1):
                ex.append([L("alloc", "malloc", 2, sz=11), L("alloc", "malloc", 0, sz=old), L("realloc", s=0, s2=s2, sz=new, fault="node"),
                           L("realloc", s=0, s2=3, sz=5), L("release", "free", 3), L("release", "free", 2)])
    for new in (0, 8, 100):
        ex.append([L("realloc", s=-1, s2=4, sz=new, fault="node"), L("realloc", s=-1, s2=4, sz=6), L("release", "free", 4)])   # (malloc family: the first fails)
    for n in (0, 3, 100):
        ex.append([L("alloc", "malloc", 1, sz=5), L("strdup", s=0, sz=n, fault="node"), L("strdup", s=0, sz=n), L("release", "free", 0), L("release", "free", 1)])
        ex.append([L("alloc", "malloc", 1, sz=5), L("strndup", s=0, sz=n, sz2=2, fault="node"), L("strndup", s=0, sz=n, sz2=2), L("release", "free", 0), L("release", "free", 1)])
        ex.append([L("alloc", "malloc", 1, sz=5), L("calloc", s=0, sz=n, sz2=3, fault="node"), L("calloc", s=0, sz=n, sz2=3), L("release", "free", 0), L("release", "free", 1)])
    return ex


def val(x):
    """Exact value of a symbolic size (python integers are unbounded); used only to keep the generator's idea of which slots are in use."""
    if isinstance(x, int):
        return x
    if x[0] == "T":
        return 2 ** 64 - 1 - x[1]
    return 2 ** x[1] + x[2]


def random_exec(rng, n, node_faults):
    """Seeded random allocation history with fault injection. The generator only mirrors the enabling conditions (which slots hold a
    block); every outcome is predicted by the specification."""
    L = lb.L
    ex, live = [], {}      # slot -> (fam, size)
    for _ in range(n):
        r = rng.random()
        free_slots = [s for s in range(8) if s not in live]
        fault = "none" if rng.random() < 0.8 else rng.choice(["under", "node"] if node_faults else ["under"])
        small = rng.choice([0, 1, 2, 3, 5, 7, 8, 9, 15, 16, 17, 63, 64, 65, 255, 1024, 4096, 4200, rng.randrange(0, 4201)])
        if r < 0.30 and free_slots:
            s = rng.choice(free_slots); ep = rng.choice(ALLOC_EPS)
            sz = rng.choice(BIG + OVER_CAP) if rng.random() < 0.15 else small
            ex.append(L("alloc", ep, s, sz=sz, fault=fault))
            if val(sz) <= 4200 and (fault == "none" or (fault == "node" and lb.FAM[ep] != "malloc")):
                live[s] = (lb.FAM[ep], val(sz))
        elif r < 0.38 and free_slots:
            s = rng.choice(free_slots); (a, b) = rng.choice(PAIRS)
            ex.append(L("calloc", s=s, sz=a, sz2=b, fault=fault))
            if fault == "none" and val(a) * val(b) <= 4200:
                live[s] = ("malloc", val(a) * val(b))
        elif r < 0.46 and free_slots:
            s = rng.choice(free_slots); ln = rng.choice([0, 1, 5, 8, 100, 1000])
            if rng.random() < 0.5:
                ex.append(L("strdup", s=s, sz=ln, fault=fault)); size = ln + 1
            else:
                m = rng.choice([0, 1, 4, ln, ln + 1, ("T", 0)])
                ex.append(L("strndup", s=s, sz=ln, sz2=m, fault=fault)); size = min(ln, val(m)) + 1
            if fault == "none":
                live[s] = ("malloc", size)
        elif r < 0.66:
            mal = [s for s in live if live[s][0] == "malloc"]
            if mal and rng.random() < 0.9:
                s = rng.choice(mal); s2 = rng.choice(free_slots + [s])
                sz = rng.choice(BIG + OVER_CAP) if rng.random() < 0.15 else small
                ex.append(L("realloc", s=s, s2=s2, sz=sz, fault=fault))
                if fault == "none" and val(sz) <= 4200:
                    del live[s]; live[s2] = ("malloc", val(sz))
            elif free_slots:
                s2 = rng.choice(free_slots)
                ex.append(L("realloc", s=-1, s2=s2, sz=small, fault=fault))
                if fault == "none":
                    live[s2] = ("malloc", small)
        elif live:
            s = rng.choice(sorted(live))
            ex.append(L("release", lb.REL_OF[live[s][0]], s)); del live[s]
    for s in sorted(live):
        ex.append(L("release", lb.REL_OF[live[s][0]], s))
    return ex


def nontrivial(e):
    return any(l[6] != "none" or not str(l[4]).startswith("S") or not str(l[5]).startswith("S") or l[0] in ("realloc", "calloc", "strdup", "strndup") for l in e)


def build_noguard(ctx):
    """The same harness against a library built without guard bytes (CPPUTEST_DISABLE_MEM_CORRUPTION_CHECK): the property quantifies over both."""
    import os, subprocess
    from vlib.core import VERIF
    extra = ["-DCPPUTEST_DISABLE_MEM_CORRUPTION_CHECK"]
    lib = ctx.build_lib("asan", extra=extra)
    exe = os.path.join(ctx.work, "blocks.noguard")
    cmd = ["g++"] + ctx.cxxflags("asan") + extra + ["-I" + os.path.join(VERIF, "harness", "common"), os.path.join(VERIF, "harness", "blocks.cpp"),
                                                    "-L" + lib, "-lCppUTestExt", "-lCppUTest", "-o", exe]
    r = subprocess.run(cmd, stdin=subprocess.DEVNULL, stdout=subprocess.PIPE, stderr=subprocess.STDOUT, text=True)
    if r.returncode != 0:
        raise Infra("harness blocks does not compile against the working tree without guard bytes:\n" + r.stdout[-3000:])
    return exe


def run(ctx):
    quick = ctx.quick
    exe = ctx.build_harness("blocks", "asan")
    K = lb.constants(ctx, exe)
    run_h = lambda s, l: ctx.run([exe, s, l, str(lb.CAP)], timeout=900)
    tcfg = ctx.write_cfg("Trace_LeakBlocks", lb.trace_cfg(K, "TSpec", "INVARIANT TInv\nPOSTCONDITION Accepted"))
    pcfg = ctx.write_cfg("Predict_LeakBlocks", lb.trace_cfg(K, "PSpec", "INVARIANT Predict"))
    if ctx.replay:
        rp = json.load(open(ctx.replay))
        ex = [l.split("\t") for l in rp["script"]]
        if (rp.get("meta") or {}).get("build") == "noguard":
            exe2 = build_noguard(ctx)
            K2 = lb.constants(ctx, exe2)
            run_h = lambda s, l: ctx.run([exe2, s, l, str(lb.CAP)], timeout=900)
            tcfg = ctx.write_cfg("Trace_LeakBlocks_noguard", lb.trace_cfg(K2, "TSpec", "INVARIANT TInv\nPOSTCONDITION Accepted"))
            pcfg = ctx.write_cfg("Predict_LeakBlocks_noguard", lb.trace_cfg(K2, "PSpec", "INVARIANT Predict"))
        if (rp.get("meta") or {}).get("mode") == "ts":
            run_h = lambda s, l: ctx.run([exe, s, l, str(lb.CAP), "ts"], timeout=900)
        conform(ctx, "replay", [ex], run_h, "Trace_LeakBlocks", tcfg, pcfg, lb.key_fn, meta=rp.get("meta"))
        return ctx.finish("replay of one recorded execution", 1)

    invs = "TypeOK LayoutSound FailsIffUnsatisfiable FailureChangesNothing SuccessAddsOne RequestsAreSilent ReportExact Poisoned"
    # ---- leg 1: exhaustive, with the layout constants of this build: all small sizes and alignment residues in one slot ...
    mc1 = ctx.write_cfg("MC_LeakBlocks_c05_sizes", lb.mc_cfg(K, invs, cap=200, slots="0", small=", ".join(map(str, range(0, 25 if quick else 65))) + ", 120, 121, 200, 1000",
                                                             big="BigTop", pairs="PairsAll", strlens="0, 1, 7", strns="NsAll", vals="", faults='"none", "under", "node"',
                                                             variants='"plain"', eps='"new", "newdbg", "newnt", "newarr", "newarrdbg", "newarrnt", "malloc"', maxoff=0))
    r1 = ctx.model_check("MC_LeakBlocks", mc1, workers=8, timeout=1500, heap="8g")
    # ... and the interplay of live blocks, faults and realloc on two/three slots
    mc2 = ctx.write_cfg("MC_LeakBlocks_c05_faults", lb.mc_cfg(K, invs, cap=200, slots="0, 1" if quick else "0, 1, 2", small="0, 5", big="BigFew", pairs="PairsFew", strlens="2",
                                                              strns="NsFew", vals="", faults='"none", "under", "node"', variants='"plain"',
                                                              eps='"new", "newarrnt", "malloc"', maxoff=0))
    r2 = ctx.model_check("MC_LeakBlocks", mc2, workers=8, timeout=1500, heap="8g")
    ctx.notes["model"] = {"distinct_states": [r1.distinct, r2.distinct], "depth": [r1.depth, r2.depth],
                          "constants": "(1) one slot, every size 0..%d + beyond the allocator's capacity, 13 huge sizes, 17 calloc pairs, 7 entry points, 3 fault points; "
                                       "(2) %d slots, sizes {0,5}, 5 huge sizes, realloc between slots, 3 fault points; layout constants from this build: %s"
                                       % (24 if quick else 64, 2 if quick else 3, json.dumps(K))}

    distinct = set()
    # ---- leg 2: behaviours generated by TLC from the specification, executed through the real entry points
    gens = [("bfs", dict(slots="0, 1", small="5", big="BigFew" if quick else "BigSome", pairs="PairsFew" if quick else "PairsSome", strlens="2", strns="NsFew", vals="",
                         faults='"none", "under"', variants='"plain"', eps='"newarr", "malloc"' if quick else '"new", "newarrnt", "malloc"', maxoff=0, D=2), None, None),
            ("sim", dict(slots="0, 1, 2", small="0, 5, 8, 100, 4200, 5000", big="BigSome", pairs="PairsSome", strlens="0, 7, 300", strns="NsFew", vals="",
                         faults='"none", "under"', variants='"plain", "wrap"',
                         eps='"new", "newnt", "newarrdbg", "malloc"', maxoff=0, D=16), 15 if quick else 300, 22)]
    for (lab, g, sim, depth) in gens:
        gcfg = ctx.write_cfg("Gen_LeakBlocks_c05_" + lab, lb.gen_cfg(K, **g))
        gr = ctx.tlc("Gen_LeakBlocks", gcfg, workers=8, simulate=sim, depth=depth, timeout=1800, heap="8g")
        execs = [lb.beh_to_exec(h) for h in gr.beh]
        if not execs:
            raise Infra("no behaviours generated by " + lab)
        if lab == "bfs":
            bfs_execs = execs
        ctx.sample({"source": "TLC " + lab, "execution": lb.show(execs[ctx.rng.randrange(len(execs))])})
        for i in range(0, len(execs), 8000):
            conform(ctx, "%s%d" % (lab, i // 8000), execs[i:i + 8000], run_h, "Trace_LeakBlocks", tcfg, pcfg, lb.key_fn, tlc_timeout=1800)
        ctx.evaluations += sum(len(e) for e in execs)
        distinct.update(json.dumps(e) for e in execs if nontrivial(e))

    # ---- leg 3: systematic sweeps over the quantifier's axes and seeded random histories with fault injection
    sw = sweeps(ctx)
    ctx.sample({"source": "sweep", "execution": lb.show(sw[ctx.rng.randrange(len(sw))])})
    for i in range(0, len(sw), 400):
        conform(ctx, "sweep%d" % (i // 400), sw[i:i + 400], run_h, "Trace_LeakBlocks", tcfg, pcfg, lb.key_fn, tlc_timeout=1800)
    ctx.evaluations += sum(len(e) for e in sw)
    distinct.update(json.dumps(e) for e in sw if nontrivial(e))
    nexec, nops = (10, 300) if quick else (80, 1500)
    rnd = [random_exec(ctx.rng, nops, False) for _ in range(nexec)]
    ctx.sample({"source": "seeded random driver", "execution": lb.show(rnd[0])})
    conform(ctx, "random", rnd, run_h, "Trace_LeakBlocks", tcfg, pcfg, lb.key_fn, tlc_timeout=1800)
    # the fault point "bookkeeping record cannot be obtained" in batches of its own (a crash ends a batch)
    nf = node_fault_sweeps()
    conform(ctx, "nodefault", nf, run_h, "Trace_LeakBlocks", tcfg, pcfg, lb.key_fn, tlc_timeout=1800)
    rnd2 = [random_exec(ctx.rng, nops, True) for _ in range(max(2, nexec // 4))]
    conform(ctx, "random-nodefault", rnd2, run_h, "Trace_LeakBlocks", tcfg, pcfg, lb.key_fn, tlc_timeout=1800)
    rnd += rnd2
    sw += nf
    ctx.evaluations += sum(len(e) for e in rnd) + sum(len(e) for e in nf)
    distinct.update(json.dumps(e[:40]) for e in rnd)
    distinct.update(json.dumps(e) for e in nf)
    # ---- the same calls through the thread-safe overloads (MemoryLeakWarningPlugin::turnOnThreadSafeNewDeleteOverloads): one meaning per
    # operator form, whichever set of overloads is installed; and once more with detector period switches (disable / enable / startChecking) interleaved
    ts = (bfs_execs if not quick else bfs_execs[::3]) + (sw if not quick else sw[::3]) + rnd[:max(2, len(rnd) // 2)]
    lb.mode_legs(ctx, conform, exe, ts, tcfg, pcfg)
    # ---- the build without guard bytes: TLC's exhaustive behaviours, the sweeps (thorough: all; quick: every 4th) and random histories again
    exe2 = build_noguard(ctx)
    K2 = lb.constants(ctx, exe2)
    if K2["guard"] != 0:
        raise Infra("the build without guard bytes still reports guard bytes: %s" % K2)
    run_h2 = lambda s, l: ctx.run([exe2, s, l, str(lb.CAP)], timeout=900)
    tcfg2 = ctx.write_cfg("Trace_LeakBlocks_noguard", lb.trace_cfg(K2, "TSpec", "INVARIANT TInv\nPOSTCONDITION Accepted"))
    pcfg2 = ctx.write_cfg("Predict_LeakBlocks_noguard", lb.trace_cfg(K2, "PSpec", "INVARIANT Predict"))
    ng = (bfs_execs if not quick else bfs_execs[::3]) + (sw if not quick else sw[::4]) + rnd
    for i in range(0, len(ng), 4000):
        conform(ctx, "noguard%d" % (i // 4000), ng[i:i + 4000], run_h2, "Trace_LeakBlocks", tcfg2, pcfg2, lambda *a: "noguard:" + lb.key_fn(*a), tlc_timeout=1800,
                meta={"build": "noguard"})
    ctx.evaluations += sum(len(e) for e in ng)
    ctx.notes["configurations"] = {"with guard bytes": K, "without guard bytes (CPPUTEST_DISABLE_MEM_CORRUPTION_CHECK)": K2}
    return ctx.finish(
        rule="executions = TLC-generated behaviours of LeakBlocks with fault points (exhaustive to depth D on 2 slots; simulation to depth 16 on 4 slots) + "
             "systematic sweeps (every size 0..%d and powers of two +-2 for every entry point; SIZE_MAX-k for k<64 and 2^e+-2; calloc pairs around the "
             "overflow boundary; realloc grow/shrink/in place/moved/failing; strdup/strndup lengths and counts; every fault point) + seeded random "
             "histories with fault injection, run through the real entry points under ASan/UBSan; distinct = distinct call sequences; non-trivial = "
             "contains a fault, a huge size, or calloc/realloc/strdup/strndup" % (300 if quick else 4200),
        distinct_nontrivial=len(distinct), exhaustive=False,
        assumptions=["the underlying allocator is the harness arena (8 slots of %d bytes behind recording TestMemoryAllocators and a PlatformSpecificRealloc stub): it refuses "
                     "what exceeds a slot, and fails on demand (fault points)" % lb.CAP,
                     "'all sizes 0..SIZE_MAX' is covered by the listed classes (every small size, SIZE_MAX-k, 2^e+d), not by enumeration; user sizes between 4200 and the "
                     "slot capacity are not generated (whether they fit depends on the bookkeeping overhead)",
                     "out-of-memory is simulated at the TestMemoryAllocator seam (an allocator returning NULL), as CppUTest does itself; the default allocator's "
                     "checkedMalloc turns a NULL from malloc into a test failure instead",
                     "the TLC-generated behaviours, the sweeps and random histories are run a second time through the thread-safe operator new/delete overloads "
                     "(single thread; the interleavings are C10's), and a third time with MemoryLeakDetector::disable / enable / startChecking calls interleaved",
                     "both layouts are built and run: with guard bytes (inline record for new/new[], separate record for malloc) and without "
                     "(CPPUTEST_DISABLE_MEM_CORRUPTION_CHECK: record always separate)",
                     "memory safety of the calls is observed by ASan/UBSan, the arena's red zones and the shadow copies, on the executions run"])
