"""C03 - each check macro fails exactly when the predicate it names is false, counted as one check (Checks.tla)."""
import os, json, struct
from vlib.conform import conform, read_log
from vlib.core import Infra
from bhelp import conform_all, chunk

EBIAS = 1100
LATTICE = {
    "quick": dict(MaxN=2, IntExps="{31, 32, 63, 64}", IntD=1, DblK=2, DblExps="{26, 1098, 2122}", StrAlpha="{97, 65, 98, 233}", StrMax=2,
                  MemBytes="{0, 1, 255}", MemMax=2, BitPos="{0, 7, 63}", CmpTypes='{"int", "ulong"}'),
    "thorough": dict(MaxN=1, IntExps="{7, 8, 15, 16, 31, 32, 63, 64}", IntD=1, DblK=3, DblExps="{26, 1098, 2122}", StrAlpha="{97, 65, 233}", StrMax=3,
                     MemBytes="{0, 1, 255}", MemMax=2, BitPos="{0, 7, 31, 63}", CmpTypes='{"int", "long", "ulong"}'),
}
CONST = """CONSTANTS
  MaxN = %(MaxN)s
  IntExps = %(IntExps)s
  IntD = %(IntD)s
  DblK = %(DblK)s
  DblExps = %(DblExps)s
  StrAlpha = %(StrAlpha)s
  StrMax = %(StrMax)s
  MemBytes = %(MemBytes)s
  MemMax = %(MemMax)s
  BitPos = %(BitPos)s
  CmpTypes = %(CmpTypes)s
"""
MC = "SPECIFICATION Spec\n" + CONST + "INVARIANTS TypeOK CountedOnce FailIffFalse FailuresAreChecks\nCHECK_DEADLOCK FALSE\n"
GEN = "SPECIFICATION GSpec\n" + CONST + "CHECK_DEADLOCK FALSE\n"
TRACE = "SPECIFICATION %(spec)s\nCONSTANTS\n  MaxN = 1000000\n%(tail)s\nCHECK_DEADLOCK FALSE\n"

INT_TYPES = {"schar": (8, True), "uchar": (8, False), "ushort": (16, False), "int": (32, True), "uint": (32, False),
             "long": (64, True), "ulong": (64, False), "llong": (64, True), "ullong": (64, False)}
INT_KINDS = {
    "LONGS_EQUAL": "long", "UNSIGNED_LONGS_EQUAL": "ulong", "LONGLONGS_EQUAL": "llong", "UNSIGNED_LONGLONGS_EQUAL": "ullong",
    "SIGNED_BYTES_EQUAL": "schar", "BYTES_EQUAL": "int", "ENUMS_EQUAL_INT": "int", "ENUMS_EQUAL_TYPE_ULONG": "ulong", "CHECK_EQUAL_ZERO": "int",
    "CHECK_EQUAL_int": "int", "CHECK_EQUAL_uint": "uint", "CHECK_EQUAL_long": "long", "CHECK_EQUAL_ulong": "ulong", "CHECK_EQUAL_llong": "llong",
    "CHECK_EQUAL_ullong": "ullong", "CHECK_EQUAL_bool": "int", "CHECK_EQUAL_C_INT": "int", "CHECK_EQUAL_C_UINT": "uint", "CHECK_EQUAL_C_LONG": "long",
    "CHECK_EQUAL_C_ULONG": "ulong", "CHECK_EQUAL_C_LONGLONG": "llong", "CHECK_EQUAL_C_ULONGLONG": "ullong", "CHECK_EQUAL_C_CHAR": "schar",
    "CHECK_EQUAL_C_UBYTE": "uchar", "CHECK_EQUAL_C_SBYTE": "schar", "CHECK_EQUAL_C_BOOL": "int"}
STR_KINDS = ["STRCMP_EQUAL", "STRNCMP_EQUAL", "STRCMP_NOCASE_EQUAL", "STRCMP_CONTAINS", "STRCMP_NOCASE_CONTAINS", "CHECK_EQUAL_C_STRING",
             "CHECK_EQUAL_SimpleString"]
NO_TEXT = {"FAIL", "FAIL_TEST", "FAIL_C", "FAIL_TEXT_C", "CHECK_THROWS"}


# ---------------------------------------------------------------- encoding of operands (script side)
def enc_int(v):
    if isinstance(v, dict):
        return "%d:%d:%d:%d" % (1 if v["neg"] else 0, v["m"][0], v["m"][1], v["m"][2])
    m = abs(v)
    return "%d:%d:%d:%d" % (1 if v < 0 else 0, m >> 48, (m >> 24) & 0xFFFFFF, m & 0xFFFFFF)


def dec_int(s):
    f = [int(x) for x in s.split(":")]
    m = (f[1] << 48) + (f[2] << 24) + f[3]
    return -m if f[0] else m


def enc_dbl(d):
    if d["c"] == "nan":
        return "nan"
    if d["c"] == "inf":
        return "inf:%d" % (1 if d["neg"] else 0)
    return "fin:%d:%d:%d" % (1 if d["neg"] else 0, d["k"], d["e"])


def show_dbl(s):
    f = s.split(":")
    if f[0] == "nan":
        return "nan"
    if f[0] == "inf":
        return "-inf" if f[1] == "1" else "+inf"
    if f[2] == "0":
        return "-0" if f[1] == "1" else "+0"
    return "%s%s*2^%d" % ("-" if f[1] == "1" else "+", f[2], int(f[3]) - EBIAS)


def enc_bytes(b):
    if b == [-1]:
        return "NULL"
    if not b:
        return "-"
    return "".join("%02x" % x for x in b)


def row_to_line(r, rng):
    """One JSON row written by Gen_Checks (or made by the random driver) -> script fields."""
    op, k = r["op"], r["k"]
    v = "plain" if k in NO_TEXT else rng.choice(["plain", "text"])
    if op == "int":
        return [op, k, v, enc_int(r["x"]), enc_int(r["y"])]
    if op == "cmp":
        return [op, k, v, r["t"], r["rel"], enc_int(r["x"]), enc_int(r["y"])]
    if op == "bool":
        return [op, k, v, enc_int(r["x"])]
    if op == "fail":
        return [op, k, v]
    if op == "throws":
        return [op, k, v, r["x"]]
    if op in ("str", "mem"):
        return [op, k, v, enc_bytes(list(r["x"])), enc_bytes(list(r["y"])), r["n"]]
    if op == "bits":
        return [op, k, v, enc_int(r["x"]), enc_int(r["y"]), enc_int(r["mask"]), r["w"]]
    if op == "ptr":
        return [op, k, v, r["x"], r["y"]]
    if op == "dbl":
        return [op, k, v, enc_dbl(r["x"]), enc_dbl(r["y"]), enc_dbl(r["t"])]
    raise Infra("unknown row " + json.dumps(r)[:200])


def key_of(kind, ex, idx, observed):
    """Key = divergence kind + check kind + a class of the operands (specific failing input)."""
    if idx >= len(ex):
        return kind + ":?"
    ln = [str(x) for x in ex[idx]]
    op, k = ln[0], ln[1]
    if op == "dbl":
        return "%s:%s:%s,%s,tol=%s" % (kind, k, show_dbl(ln[3]), show_dbl(ln[4]), show_dbl(ln[5]))
    if op in ("int", "cmp", "bits", "bool"):
        vals = [str(dec_int(x)) for x in ln[3:] if x.count(":") == 3]
        extra = [x for x in ln[3:] if x.count(":") != 3]
        return "%s:%s:%s" % (kind, k, ",".join(extra + vals))
    return "%s:%s:%s" % (kind, k, ",".join(ln[3:]))[:160]


# ---------------------------------------------------------------- seeded random machine values (leg 3)
def rnd_int(rng, t):
    bits, signed = INT_TYPES[t]
    lo, hi = (-(1 << (bits - 1)), (1 << (bits - 1)) - 1) if signed else (0, (1 << bits) - 1)
    r = rng.random()
    if r < 0.35:
        v = rng.getrandbits(bits) + (lo if signed else 0)
    elif r < 0.6:
        v = rng.choice([lo, hi, 0, 1 << 7, 1 << 8, 1 << 15, 1 << 16, 1 << 31, 1 << 32, 1 << 63, -(1 << 7), -(1 << 15), -(1 << 31)]) + rng.randint(-3, 3)
    elif r < 0.8:
        v = rng.randint(-300, 300)
    else:
        v = (1 << rng.randrange(bits)) * rng.choice([1, -1]) + rng.randint(-1, 1)
    return min(hi, max(lo, v)), lo, hi


def rnd_int_pair(rng, t):
    x, lo, hi = rnd_int(rng, t)
    r = rng.random()
    if r < 0.35:
        y = x
    elif r < 0.6:
        # differ in one bit only (truncation to a narrower type would hide the high ones)
        bits = INT_TYPES[t][0]
        y = x ^ (1 << rng.randrange(bits)) if x >= 0 else -((-x) ^ (1 << rng.randrange(bits - 1)))
        y = min(hi, max(lo, y))
    elif r < 0.75:
        y = min(hi, max(lo, x + rng.choice([-256, 256, -1, 1, 1 << 32, -(1 << 32), 1 << 8, 1 << 16])))
    else:
        y = rnd_int(rng, t)[0]
    return x, y


def rnd_str(rng, hi):
    n = rng.choice([0, 1, 2, 3, 5, 8, 17, 40])
    pool = [rng.randrange(1, 128) for _ in range(4)] + [65, 97, 90, 122, 64, 91, 96, 123, hi, 32, 10, 92]
    return [rng.choice(pool) for _ in range(n)]


def swapcase(b):
    return b + 32 if 65 <= b <= 90 else b - 32 if 97 <= b <= 122 else b


def rnd_str_pair(rng):
    hi = rng.randrange(128, 256)       # one high-bit byte value per pair (printed forms of distinct operands stay distinct: C14's topic)
    x = rnd_str(rng, hi)
    r = rng.random()
    if rng.random() < 0.12:
        # a needle with a self-overlapping prefix inside a haystack with an overlapping false start ("aab" in "aaab", "ababc" in
        # "abababc"): substring search that does not back up correctly after a partial match gets exactly these wrong
        a, b, c = rng.choice([(97, 98, 99), (65, 97, 98), (45, 102, 32)])
        unit = [a] * rng.choice([1, 2]) + ([b] if rng.random() < 0.5 else [])
        needle = unit * rng.choice([1, 2]) + [c if rng.random() < 0.7 else b]
        hay = rnd_str(rng, hi)[:3] + unit * rng.choice([1, 2, 3]) + needle + rnd_str(rng, hi)[:2]
        if rng.random() < 0.3:
            hay = [swapcase(v) if 65 <= v <= 122 and rng.random() < 0.5 else v for v in hay]
        return (needle, hay) if rng.random() < 0.8 else (hay, needle)
    if r < 0.2:
        y = list(x)
    elif r < 0.4 and x:
        y = list(x); i = rng.randrange(len(y)); y[i] = swapcase(y[i])
        if rng.random() < 0.5:
            y[rng.randrange(len(y))] = hi
    elif r < 0.55 and x:
        y = list(x); i = rng.randrange(len(y)); y[i] = rng.choice([1, hi, (y[i] ^ 1 or 1) if y[i] < 128 else 126, 127])
    elif r < 0.7:
        y = rnd_str(rng, hi) + x + rnd_str(rng, hi)
    elif r < 0.8:
        y = x[:rng.randrange(len(x) + 1)]
    elif r < 0.9:
        y = x + rnd_str(rng, hi)
    else:
        y = rnd_str(rng, hi)
    if rng.random() < 0.5:
        x, y = y, x
    if rng.random() < 0.04:
        x = [-1]
    if rng.random() < 0.04:
        y = [-1]
    return x, y


def rnd_dbl_row(rng):
    e = rng.choice([26, 27, 500, 1098, 1100, 1150, 2000, 2122 - 21, 2122]) if rng.random() < 0.6 else rng.randrange(26, 2123 - 21)
    kmax = 3 if e > 2122 - 21 else rng.choice([3, 100, (1 << 20) - 1])

    def val(special):
        r = rng.random()
        if r < special:
            return rng.choice([{"c": "nan", "neg": False, "k": 0, "e": 0}, {"c": "inf", "neg": False, "k": 0, "e": 0},
                               {"c": "inf", "neg": True, "k": 0, "e": 0}, {"c": "fin", "neg": False, "k": 0, "e": 0},
                               {"c": "fin", "neg": True, "k": 0, "e": 0}])
        k = rng.randint(1, kmax)
        return {"c": "fin", "neg": rng.random() < 0.5, "k": k, "e": e}
    x = val(0.15)
    r = rng.random()
    if r < 0.2:
        y = dict(x)
    elif r < 0.7 and x["c"] == "fin" and x["k"]:
        d = rng.randint(-3, 3) if rng.random() < 0.5 else rng.randint(-kmax, kmax)
        sk = max(-kmax, min(kmax, (-x["k"] if x["neg"] else x["k"]) + d))
        y = {"c": "fin", "neg": sk < 0, "k": abs(sk), "e": e if sk else 0}
    else:
        y = val(0.15)
    t = val(0.2)
    if t["c"] == "fin" and rng.random() < 0.85:
        t["neg"] = False
        if rng.random() < 0.5 and x["c"] == "fin" and y["c"] == "fin":
            # tolerance at, just below, just above the actual distance
            d = abs((-x["k"] if x["neg"] else x["k"]) - (-y["k"] if y["neg"] else y["k"])) + rng.choice([-1, 0, 0, 1])
            t = {"c": "fin", "neg": False, "k": min(kmax, max(0, d)), "e": e if d > 0 else 0}
    for d in (x, y, t):
        if d["c"] == "fin" and d["k"] == 0:
            d["e"] = 0
    return {"op": "dbl", "k": rng.choice(["DOUBLES_EQUAL", "CHECK_EQUAL_C_REAL"]), "x": x, "y": y, "t": t}


def random_rows(rng, n):
    rows = []
    kinds = sorted(INT_KINDS)
    for _ in range(n):
        r = rng.random()
        if r < 0.3:
            k = rng.choice(kinds)
            t = INT_KINDS[k]
            x, y = rnd_int_pair(rng, t)
            if k == "CHECK_EQUAL_ZERO":
                x = 0
                y = rng.choice([0, 0, y])
            if k == "CHECK_EQUAL_bool":
                x, y = rng.randint(0, 1), rng.randint(0, 1)
            rows.append({"op": "int", "k": k, "x": x, "y": y})
        elif r < 0.4:
            t = rng.choice(["int", "uint", "long", "ulong", "llong", "ullong"])
            x, y = rnd_int_pair(rng, t)
            rows.append({"op": "cmp", "k": "CHECK_COMPARE", "t": t, "rel": rng.choice(["==", "!=", "<", ">", "<=", ">="]), "x": x, "y": y})
        elif r < 0.45:
            x = rng.choice([0, 0, 1, -1, 2, 256, 1 << 16, (1 << 31) - 1, -(1 << 31), rnd_int(rng, "int")[0]])
            rows.append({"op": "bool", "k": rng.choice(["CHECK", "CHECK_TRUE", "CHECK_FALSE", "CHECK_C"]), "x": x})
        elif r < 0.65:
            x, y = rnd_str_pair(rng)
            k = rng.choice(STR_KINDS)
            if k == "CHECK_EQUAL_SimpleString":
                x = [] if x == [-1] else x
                y = [] if y == [-1] else y
            n_ = 0
            if k == "STRNCMP_EQUAL":
                common = 0
                if x != [-1] and y != [-1]:
                    while common < min(len(x), len(y)) and x[common] == y[common]:
                        common += 1
                n_ = max(0, rng.choice([0, 1, common - 1, common, common + 1, common + 2, 100, (1 << 31) - 1]))
            rows.append({"op": "str", "k": k, "x": x, "y": y, "n": n_})
        elif r < 0.75:
            ln = rng.choice([1, 2, 3, 8, 33, 64])
            x = [rng.choice([0, 0, 1, 255, rng.randrange(256)]) for _ in range(ln)]
            y = list(x)
            n_ = rng.randint(0, ln)
            if rng.random() < 0.6:
                y[rng.randrange(ln)] = rng.randrange(256)
            if rng.random() < 0.3:
                y = y + [7] * rng.randint(0, 3)
            if rng.random() < 0.05:
                x = [-1]
            if rng.random() < 0.05:
                y = [-1]
            rows.append({"op": "mem", "k": rng.choice(["MEMCMP_EQUAL", "CHECK_EQUAL_C_MEMCMP"]), "x": x, "y": y, "n": n_})
        elif r < 0.85:
            k = rng.choice(["BITS_EQUAL", "CHECK_EQUAL_C_BITS"])
            w = rng.choice([1, 2, 4, 8] if k == "BITS_EQUAL" else [1, 2, 4])
            full = (1 << (8 * w)) - 1
            x = rng.getrandbits(8 * w)
            mask = rng.choice([0, full, rng.getrandbits(8 * w), 1 << rng.randrange(8 * w), full ^ (1 << rng.randrange(8 * w))])
            rr = rng.random()
            if rr < 0.3:
                y = x
            elif rr < 0.6:
                y = x ^ (rng.getrandbits(8 * w) & ~mask & full)      # differs only outside the mask
            elif rr < 0.8:
                y = x ^ (1 << rng.randrange(8 * w))
            else:
                y = rng.getrandbits(8 * w)
            rows.append({"op": "bits", "k": k, "x": x, "y": y, "mask": mask, "w": w})
        else:
            rows.append(rnd_dbl_row(rng))
    return rows


def run(ctx):
    quick = ctx.quick
    exe = ctx.build_harness("checks", "asan")
    tcfg = ctx.write_cfg("Trace_Checks", TRACE % {"spec": "TSpec", "tail": "INVARIANT TInv\nPOSTCONDITION Accepted"})
    pcfg = ctx.write_cfg("Predict_Checks", TRACE % {"spec": "PSpec", "tail": "INVARIANT Predict"})
    harness = lambda s, l: ctx.run([exe, s, l], timeout=900)

    if ctx.replay:
        rp = json.load(open(ctx.replay))
        ex = [l.split("\t") for l in rp["script"]]
        conform(ctx, "replay", [ex], harness, "Trace_Checks", tcfg, pcfg, key_of, meta=rp.get("meta"))
        return ctx.finish("replay of one recorded execution", 1)

    lat = LATTICE["quick" if quick else "thorough"]
    # ---- leg 1: laws of the predicate definitions + accounting invariants over every call of the lattice
    mc = ctx.write_cfg("MC_Checks", MC % lat)
    r = ctx.model_check("MC_Checks", mc, workers=4, timeout=1500, heap="6g")
    ctx.notes["model"] = {"distinct_states": r.distinct, "transitions": r.generated, "lattice": lat,
                          "laws": "IntLaws DblLaws StrLaws MemLaws BitLaws AllWellFormed (ASSUME, evaluated by TLC)"}

    # ---- leg 2: the table of calls generated by TLC from the lattices, executed on the real macros, validated by Trace_Checks
    gcfg = ctx.write_cfg("Gen_Checks", GEN % lat)
    table = os.path.join(ctx.work, "rows")
    ctx.tlc("Gen_Checks", gcfg, workers=1, env={"OUT": table}, timeout=1500, heap="6g", count=False)
    rows = []
    for fam in ("int", "cmp", "misc", "str", "mem", "bits", "dbl"):
        rows += [json.loads(l) for l in open(table + "." + fam + ".ndjson") if l.strip()]
    if len(rows) < 1000:
        raise Infra("table generation produced only %d rows" % len(rows))
    ctx.notes["table_rows"] = len(rows)
    if os.environ.get("VERIF_DEBUG"):
        import sys
        sys.stderr.write("tlc runs: %s\n" % json.dumps(ctx.tlc_runs))
    failed_seen = set()
    nexec = 0

    import time, sys
    dbg = os.environ.get("VERIF_DEBUG")

    def go(label, rws, per=250):
        nonlocal nexec
        t0 = time.time()
        ctx.rng.shuffle(rws)
        lines = [row_to_line(r_, ctx.rng) for r_ in rws]
        execs = chunk(lines, per)
        for lab in conform_all(ctx, label, execs, harness, "Trace_Checks", tcfg, pcfg, key_of, meta={"source": label}):
            prev = 0
            for e in read_log(os.path.join(ctx.work, lab + ".log.ndjson")):
                if e.get("op") == "reset":
                    prev = 0
                    continue
                if "fc" in e:
                    if e["fc"] > prev:
                        failed_seen.add(json.dumps({k_: v_ for k_, v_ in e.items() if k_ not in ("cc", "fc", "v")}, sort_keys=True))
                    prev = e["fc"]
        nexec += len(execs)
        ctx.evaluations += len(lines)
        if dbg:
            sys.stderr.write("%s: %d calls %.1fs\n" % (label, len(lines), time.time() - t0))
        return execs

    by_op = {}
    for r_ in rows:
        by_op[r_["op"]] = by_op.get(r_["op"], 0) + 1
    if set(by_op) != {"int", "cmp", "bool", "fail", "throws", "str", "mem", "bits", "ptr", "dbl"}:
        raise Infra("table lacks a family: %s" % sorted(by_op))
    ctx.notes["table_rows_by_family"] = by_op
    for i, part in enumerate(chunk(rows, 40000)):
        ex = go("table%d" % i, part)
        if i == 0:
            ctx.sample({"source": "TLC table (Gen_Checks)", "execution": ["\t".join(map(str, l)) for l in ex[0][:8]]})

    # ---- leg 3: seeded random machine values (exact representation logged), validated by the same trace specification
    n = 5000 if quick else 60000
    rrows = random_rows(ctx.rng, n)
    for i, part in enumerate(chunk(rrows, 30000)):
        ex = go("random%d" % i, part)
        if i == 0:
            ctx.sample({"source": "seeded random driver", "execution": ["\t".join(map(str, l)) for l in ex[0][:6]]})
    return ctx.finish(
        rule="executions = sequences of <= 250 checks, each check run as the body of a TestTestingFixture test on the real macros (ASan+UBSan build); "
             "calls = every row of the operand-lattice table written by TLC (Gen_Checks) + seeded random machine values; the verdict of each logged "
             "call is computed by TLC (Trace_Checks) from the exact operand values; distinct non-trivial = distinct calls (kind + operands) on which "
             "the real macro recorded a failure",
        distinct_nontrivial=len(failed_seen), exhaustive=False,
        assumptions=["operands lie inside the operand type of the macro (integers are converted by the caller, not by the macro)",
                     "finite doubles in one call share a binary exponent (differences exactly representable) unless the tolerance is 0, infinite or unspecified",
                     "verdict for a NaN or negative tolerance is left open by the statement (both outcomes accepted, the count is still checked)",
                     "strings of one call use at most one byte value >= 0x80 (colliding printed forms of distinct operands belong to C14)",
                     "CHECK_EQUAL is exercised on built-in operand types, bool, double, const void* and SimpleString"],
        extra={"executions": nexec})
