"""C10 - thread-safe allocation mode: schedule-independent accounting, no race, no hang (ThreadSafe.tla)."""
import os, json
from vlib.core import Infra, crashed
from vlib.conform import read_log

MC = """SPECIFICATION FairSpec
CONSTANTS
  Threads <- MCThreads
  Script <- MCScript
  AsCoded = %s
  Variant = %d
INVARIANTS MutualExclusion AtMostOneInside LockNeverLeaked NoLostUpdate HeldAreOutstanding LockFreeAtEnd
PROPERTY Progress
CHECK_DEADLOCK FALSE
"""
ENTRY = ["new", "new nothrow", "new debug", "new[]", "new[] nothrow", "new[] debug", "delete", "delete[]", "malloc", "realloc", "free"]


def one_run(ctx, exe, seed, nthreads, nops, label, yieldlevel=1, timeout=300):
    logp = os.path.join(ctx.work, "thr-%s.ndjson" % label)
    rc, out, to = ctx.run([exe, "run", str(seed), str(nthreads), str(nops), logp, str(yieldlevel)], timeout=timeout)
    return rc, out, to, logp


def validate(ctx, logp):
    ok, matched, r = ctx.validate_trace("Trace_ThreadSafe", "Trace_ThreadSafe", logp, timeout=1800, heap="8g")
    return ok, matched


def run(ctx):
    quick = ctx.quick
    exe = ctx.build_harness("threads", "plain", extra=["-O1"])
    exe_tsan = ctx.build_harness("threads", "tsan")
    if ctx.replay:
        rp = json.load(open(ctx.replay))
        m = rp["meta"]
        if m["mode"] == "misuse":
            return misuse_leg(ctx, exe, [m["kind"]]) or ctx.finish("replay", 2)
        if m["mode"] == "stall":
            return stall_leg(ctx, exe, [m["ms"]]) or ctx.finish("replay", 2)
        x = exe_tsan if m.get("tsan") else exe
        rc, out, to, logp = one_run(ctx, x, m["seed"], m["threads"], m["ops"], "replay", m.get("yield", 1))
        judge(ctx, rc, out, to, logp, m, "replay")
        return ctx.finish("replay of one recorded schedule (schedules are not reproducible; the same seed is re-run)", 2)

    # ---- leg 1: the lock protocol, all interleavings (TLC), safety + liveness under fairness
    for variant in ([3] if quick else [3, 4]):
        r = ctx.model_check("MC_ThreadSafe", ctx.write_cfg("MC_ThreadSafe_%d" % variant, MC % ("FALSE", variant)), workers=8, timeout=1800)
        ctx.notes.setdefault("model", []).append({"threads": variant, "distinct_states": r.distinct, "depth": r.depth})
    # the as-coded variant documents the finding: TLC exhibits the leaked lock
    r = ctx.tlc("MC_ThreadSafe", ctx.write_cfg("MC_ThreadSafe_ascoded", MC % ("TRUE", 3)), workers=4, timeout=600, count=False)
    ctx.notes["as_coded_counterexample"] = "AsCoded=TRUE (leave the locked region by longjmp): TLC reports %s" % (r.violated or ("rc=%d" % r.rc))

    # ---- leg 3 (main leg): real threads, forced pre-emption at lock boundaries, H3 events at the linearization point
    runs = [(2, 1500), (4, 1200), (8, 800), (16, 400)] if quick else [(2, 6000), (3, 6000), (4, 5000), (8, 4000), (12, 3000), (16, 2500), (16, 2500), (8, 6000)] * 3
    nontrivial = 0
    entries = [0] * 11
    for i, (nt, nops) in enumerate(runs):
        seed = ctx.seed * 1000 + i          # odd seeds run a save / restore pair of the overloads before the threads start
        meta = {"mode": "run", "seed": seed, "threads": nt, "ops": nops, "yield": 1 + (i % 2)}
        rc, out, to, logp = one_run(ctx, exe, seed, nt, nops, "r%d" % i, meta["yield"])
        info = judge(ctx, rc, out, to, logp, meta, "threads-%d" % nt)
        if info:
            nontrivial += 1 if info["switches"] > 10 else 0
            entries = [a + b for a, b in zip(entries, info["entries"])]
            if i == 0:
                ctx.sample({"source": "real threads", "threads": nt, "events": info["events"], "owner_switches": info["switches"], "first_events": info["head"]})
    # ThreadSanitizer build of the same harness: a data race on the detector's state is a rejected execution
    for i, (nt, nops) in enumerate([(4, 600), (8, 300)] if quick else [(4, 3000), (8, 2000), (16, 1000), (2, 5000), (16, 2000), (6, 3000)]):
        seed = ctx.seed * 1000 + 500 + i
        meta = {"mode": "run", "seed": seed, "threads": nt, "ops": nops, "yield": 1, "tsan": True}
        rc, out, to, logp = one_run(ctx, exe_tsan, seed, nt, nops, "t%d" % i, 1, timeout=600)
        info = judge(ctx, rc, out, to, logp, meta, "tsan-%d" % nt)
        if info:
            nontrivial += 1 if info["switches"] > 10 else 0
    ctx.notes["entry_point_events"] = dict(zip(ENTRY, entries))
    unexercised = [n for n, c in zip(ENTRY, entries) if c == 0]
    if unexercised and not ctx.violations:
        raise Infra("thread-safe entry points never exercised: %s" % unexercised)

    # ---- one thread slow inside the locked region (a starved thread, a slow user allocator): however long the lock is held, nobody else enters
    stall_leg(ctx, exe, [200, 3600] if quick else [50, 1000, 3600, 6500, 11000])
    # ---- misuse while the lock is held: reported as a failure, run continues, lock not left held (deadline = no hang)
    misuse_leg(ctx, exe, [0, 1, 2, 3, 4, 5, 6, 7])
    return ctx.finish(
        rule="executions = real multi-threaded runs (2..16 threads, seeded scripts through all eleven thread-safe entry points, forced yields at "
             "lock acquire/release) whose totally ordered event logs (mutex seams + hook H3 table events) are validated by TLC against the lock "
             "protocol; plus the same harness under ThreadSanitizer; plus eight failure-while-locked scenarios (overrun, foreign and double release, overrun after a detector swap, an allocator that fails the test "
             "because it cannot satisfy a new[] / malloc request, the default allocators with a request the C library refuses) under a deadline; non-trivial = a run "
             "with more than 10 lock-owner switches",
        distinct_nontrivial=max(2, nontrivial) if nontrivial >= 2 else nontrivial,
        assumptions=["real schedules are sampled (seeds x forced yields), enumeration is done on the model",
                     "events are ordered by an atomic sequence counter taken inside the lock (H3) / inside the seam wrappers",
                     "a long hold of the lock is exercised with an allocator that sleeps inside the locked region (up to 3.6 s in the quick tier, 11 s in the thorough tier) "
                     "while two other threads allocate; longer holds are not sampled",
                     "misuse on a worker thread (longjmp across threads) is outside the claim; misuse is exercised on the test's own thread"])


def judge(ctx, rc, out, to, logp, meta, label):
    why = crashed(rc, out)
    log = read_log(logp)
    if why or rc != 0 or not log or log[-1].get("op") != "end":
        ctx.diverge("crash:" + ("tsan" if meta.get("tsan") else "threads") + (":hang" if to else ""),
                    "%s: multi-threaded run did not complete cleanly: %s\n%s" % (label, why or ("rc=%s" % rc), out[-1500:]),
                    {"meta": meta, "why": why, "output_tail": out[-4000:]})
        return None
    ok, matched = validate(ctx, logp)
    ctx.evaluations += len(log)
    if not ok:
        bad = log[matched] if matched < len(log) else None
        ctx.diverge("reject:" + str((bad or {}).get("op")), "%s: event log rejected by Trace_ThreadSafe at event %d: %s (previous: %s)" %
                    (label, matched + 1, json.dumps(bad), json.dumps(log[max(0, matched - 3):matched])),
                    {"meta": meta, "failing_event": matched + 1, "event": bad, "context": log[max(0, matched - 10):matched + 1]})
        return None
    ctx.traces += 1
    switches, prev = 0, None
    for e in log:
        if e["op"] == "lock":
            if prev is not None and e["t"] != prev:
                switches += 1
            prev = e["t"]
    return {"events": len(log), "switches": switches, "entries": log[-1]["entries"], "head": log[:6]}


def stall_leg(ctx, exe, holds):
    for ms in holds:
        logp = os.path.join(ctx.work, "stall-%d.ndjson" % ms)
        rc, out, to = ctx.run([exe, "stall", str(ms), logp], timeout=ms // 1000 + 60)
        judge(ctx, rc, out, to, logp, {"mode": "stall", "ms": ms}, "stall-%dms" % ms)
    return None


def misuse_leg(ctx, exe, kinds):
    names = {0: "overrun", 1: "foreign", 2: "double", 3: "overrun-after-detector-swap", 4: "allocator-refuses-new[]", 5: "allocator-refuses-malloc",
             6: "c-library-refuses-new[]", 7: "c-library-refuses-malloc"}
    for k in kinds:
        logp = os.path.join(ctx.work, "misuse-%d.ndjson" % k)
        rc, out, to = ctx.run([exe, "misuse", str(k), logp], timeout=20)
        log = read_log(logp)
        meta = {"mode": "misuse", "kind": k}
        last = log[-1] if log else {}
        ctx.evaluations += 1
        if to:
            ctx.diverge("hang:misuse-while-locked:" + names[k],
                        "misuse (%s) detected in thread-safe mode: the run did not finish within 20 s (the detector's lock was left held)" % names[k],
                        {"meta": meta, "log": log, "output_tail": out[-1500:]})
            continue
        why = crashed(rc, out)
        if why or last.get("op") != "misuse":
            ctx.diverge("crash:misuse:" + names[k], "misuse scenario %s crashed: %s" % (names[k], why), {"meta": meta, "log": log, "output_tail": out[-1500:]})
            continue
        good = last["body"] == 1 and last["after"] == 0 and last["second"] == 1 and last["other"] == 1 and last["failures"] == 1 and last["run"] == 2
        if not good:
            ctx.diverge("reject:misuse:" + names[k], "misuse (%s) in thread-safe mode must be one test failure and the run must continue: %s" % (names[k], json.dumps(last)),
                        {"meta": meta, "log": log})
        else:
            ctx.traces += 1
    return None
