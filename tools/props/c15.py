"""C15 - injected out-of-memory hits exactly the designated allocations (FailAlloc.tla)."""
import os, json
from vlib.core import Infra
from vlib.conform import conform
from harnessrun import run_harness

MC = """SPECIFICATION Spec
CONSTANTS
  Locs = {%(locs)s}
  Ns = {%(ns)s}
  Countdowns = {%(cds)s}
  MaxAllocs = %(maxallocs)d
  MaxPending = %(maxpending)d
  MaxCount = %(maxcount)d
  Allocators = {%(allocators)s}
INVARIANTS TypeOK ExactlyDesignated ReportsUndone PendingLive ClearRestores CountdownFires CountdownNotEarly NotOomRestores CountResetZeroes
PROPERTIES OomMeansNull CountsCAllocs StatsLeaveInjection SimulationKeepsAllocator ServedByInstalled
CHECK_DEADLOCK FALSE
"""
GEN = """SPECIFICATION GSpec
CONSTANTS
  Locs = {%(locs)s}
  Ns = {%(ns)s}
  Countdowns = {%(cds)s}
  MaxAllocs = 1000000
  MaxPending = %(maxpending)d
  MaxCount = 1000000
  Allocators = {"failable", "plain"}
  D = %(D)d
  Vias = {%(vias)s}
  Fns = {%(fns)s}
  Ops = {%(ops)s}
INVARIANTS Dump
CHECK_DEADLOCK FALSE
"""
TRACE = """SPECIFICATION %(spec)s
CONSTANTS
  Locs = {1, 2, 3, 4, 5, 6}
  Ns = {1}
  Countdowns = {1}
  MaxAllocs = 1
  MaxPending = 1
  MaxCount = 1
  Allocators = {"failable", "plain"}
%(tail)s
CHECK_DEADLOCK FALSE
"""
FIELDS = ["op", "via", "loc", "n"]
CF = ["malloc", "calloc", "strdup", "strndup"]
FOPS = ["failnum", "failat", "alloc", "checkdone", "clear"]            # the failable allocator
COPS = ["countdown", "setoom", "setnotoom", "c"]                        # the C-level injection
SOPS = ["countreset", "getcount"]                                       # the malloc statistics that count the same C allocations
IOPS = ["install"]                                                      # the test changes its malloc allocator (failable <-> plain), outside the simulation
AGAIN = ["setoom-again", "setnotoom-any"]                               # set_out_of_memory also while already out of memory, set_not_out_of_memory also when
                                                                        # nothing is armed (Gen: "setoom" / "setnotoom" = only when they change something)
q = lambda names: ", ".join('"%s"' % x for x in names)


class CSim:
    """What a test knows about the C-level simulation from its own calls (Countdown / SetOOM / SetNotOOM / CAlloc / Install of FailAlloc.tla,
    without the results): the random driver uses it to place `install` outside the simulation, the divergence key to name the class of the
    history - how often the simulation was entered (set_out_of_memory, countdown(0), a countdown expiring) since it was last cleared."""

    def __init__(self):
        self.cd, self.oom, self.entries, self.armed, self.cleared, self.sel, self.idle_clears = -1, False, 0, "", None, "failable", 0

    def enter(self):
        self.oom = True
        self.entries += 1

    def step(self, ln):
        op = ln[0]
        if op == "countdown":
            self.cd, self.armed, self.cleared = int(ln[3]), "countdown", None
            if self.cd == 0:
                self.enter()
        elif op == "setoom":
            self.armed, self.cleared = "oom", None
            self.enter()
        elif op == "setnotoom":
            self.cleared = self.entries
            self.idle_clears += 1 if self.entries == 0 else 0
            self.cd, self.oom, self.entries, self.armed = -1, False, 0, ""
        elif op == "install":
            self.sel = str(ln[1])
        elif op == "countreset" and self.armed:
            self.armed = self.armed.split("+")[0] + "+countreset"
        elif op == "c" and self.cd > 0:
            self.cd -= 1
            if self.cd == 0:
                self.enter()

    def label(self):
        cap = lambda n: str(n) if n < 2 else "2+"
        parts = []
        if self.armed:
            parts.append(self.armed + ("+entered=" + cap(self.entries) if self.entries >= 2 else ""))
        elif self.cleared is not None:
            parts.append("cleared-after-entries=" + cap(self.cleared))
        if self.sel != "failable":
            parts.append("installed=" + self.sel)
        if self.idle_clears and not (not self.armed and self.cleared == 0):
            parts.append("cleared-unentered-before")
        return ":".join(parts)


def random_exec(rng, nops, nloc=4, profile="mixed"):
    """Seeded random workload: designations (global and by location, several per location, some coinciding, some in the
    past), allocations mixing locations and doors, countdowns of every small value, checks and clears, the malloc
    statistics read / reset in between, and the test changing its malloc allocator (failable / plain) outside the simulation.
    profile "c" = the C interface dominates: the simulation is entered by every door, re-entered before it is cleared (countdowns re-armed after
    they expired, set_out_of_memory / countdown(0) while out of memory), cleared (also when it was never entered) and allocated after."""
    ex = []
    sim = CSim()

    def add(ln):
        ex.append(ln)
        sim.step(ln)
    for _ in range(nops):
        r = rng.random()
        loc = rng.randrange(1, nloc + 1)
        other = rng.choice(["failable", "plain", "plain"] if sim.sel == "failable" else ["failable", "failable", "plain"])
        if profile == "c":
            if r < 0.06:
                add(["failnum", "", 0, rng.choice([0, 1, 1, 2, 2, 3, 4, 6])])
            elif r < 0.10:
                add(["failat", "", loc, rng.choice([1, 1, 2, 2, 3])])
            elif r < 0.14:
                add(["alloc", rng.choice(["direct", "new", "newarray"]), loc, 0])
            elif r < 0.17:
                add(["countreset", "", 0, 0])
            elif r < 0.19:
                add(["getcount", "", 0, 0])
            elif r < 0.21:
                add(["checkdone", "", 0, 0])
            elif r < 0.23:
                add(["clear", "", 0, 0])
            elif r < 0.38:
                add(["countdown", "", 0, rng.choice([-1, 0, 0, 1, 1, 1, 2, 2, 3])])
            elif r < 0.45:
                add(["setoom", "", 0, 0])
            elif r < 0.55:
                add(["setnotoom", "", 0, 0])
            elif r < 0.60 and not sim.oom:
                add(["install", other, 0, 0])
            else:
                add(["c", rng.choice(CF), loc, 0])
            continue
        if r < 0.10:
            add(["failnum", "", 0, rng.choice([0, 1, 1, 2, 2, 3, 4, 6, 9])])
        elif r < 0.24:
            add(["failat", "", loc, rng.choice([0, 1, 1, 2, 2, 3, 4])])
        elif r < 0.51:
            add(["alloc", rng.choice(["direct", "new", "newarray"]), loc, 0])
        elif r < 0.53 and not sim.oom:
            add(["install", other, 0, 0])
        elif r < 0.57:
            add(["countreset", "", 0, 0])
        elif r < 0.60:
            add(["getcount", "", 0, 0])
        elif r < 0.78:
            add(["c", rng.choice(CF), loc, 0])
        elif r < 0.83:
            add(["checkdone", "", 0, 0])
        elif r < 0.88:
            add(["clear", "", 0, 0])
        elif r < 0.94:
            add(["countdown", "", 0, rng.choice([-1, 0, 1, 1, 2, 2, 3, 5])])
        elif r < 0.96:
            add(["setoom", "", 0, 0])
        else:
            add(["setnotoom", "", 0, 0])
    return ex


def history_class(ex, idx, loc):
    """The class of the history before call idx (an allocation at loc), which the key of a divergence names: how many
    location designations were placed since the last clear for this location / for other locations, how many global
    ones, the C-level injection in force (armed how, entered how often, the malloc statistics reset while it was in force) or
    how often it had been entered when it was cleared, and the malloc allocator the test installed if not the failable one."""
    here = elsewhere = num = 0
    sim = CSim()
    for ln in ex[:idx]:
        op = ln[0]
        sim.step(ln)
        if op == "clear":
            here = elsewhere = num = 0
        elif op == "failnum":
            num += 1
        elif op == "failat":
            if str(ln[2]) == str(loc):
                here += 1
            else:
                elsewhere += 1
    return here, elsewhere, num, sim.label()


def run(ctx):
    quick = ctx.quick
    exe = ctx.build_harness("failalloc", "asan")

    def key_fn(kind, ex, idx, observed):
        if idx >= len(ex):
            return "%s:end" % kind
        ln = ex[idx]
        here, elsewhere, num, cd = history_class(ex, idx, ln[2])
        what = ln[0] if ln[0] != "c" else "c-" + str(ln[1])
        res = (observed or {}).get("res", "") if kind == "reject" else ""
        cap = lambda n: str(n) if n < 2 else "2+"
        return ":".join(x for x in [kind, what, res, "at-here=" + cap(here), "at-elsewhere=" + cap(elsewhere), "num=" + cap(num), cd] if x)

    tcfg = ctx.write_cfg("Trace_FailAlloc", TRACE % {"spec": "TSpec", "tail": "INVARIANT TInv\nPOSTCONDITION Accepted"})
    pcfg = ctx.write_cfg("Predict_FailAlloc", TRACE % {"spec": "PSpec", "tail": "INVARIANT Predict"})
    harness = lambda s, l: run_harness(ctx, [exe, s, l], l, timeout=900)

    if ctx.replay:
        rp = json.load(open(ctx.replay))
        ex = [l.split("\t") for l in rp["script"]]
        conform(ctx, "replay", [ex], harness, "Trace_FailAlloc", tcfg, pcfg, key_fn, meta=rp.get("meta"))
        return ctx.finish("replay of one recorded execution", 1)

    # ---- leg 1: the specification satisfies the property (exhaustive, small constants)
    # quick: both allocators on the small constants; thorough: the large constants with the failable allocator underneath, and both
    # allocators (the simulation as a detour around whichever the test installed) on the small constants with the larger statistics bound
    both = '"failable", "plain"'
    small = {"locs": "1, 2", "ns": "1, 2", "cds": "0, 1, 2", "maxallocs": 3, "maxpending": 2, "maxcount": 1, "allocators": both}
    mcs = ([("MC_FailAlloc", small)] if quick else
           [("MC_FailAlloc", {"locs": "1, 2, 3", "ns": "1, 2, 3", "cds": "0, 1, 2", "maxallocs": 4, "maxpending": 2, "maxcount": 2, "allocators": '"failable"'}),
            ("MC_FailAlloc_installed", dict(small, maxcount=2))])
    ctx.notes["model"] = []
    for (name, mc) in mcs:
        r = ctx.model_check("FailAlloc", ctx.write_cfg(name, MC % mc), workers=8, timeout=1800, heap="12g")
        ctx.notes["model"].append({"cfg": name, "distinct_states": r.distinct, "depth": r.depth, "constants": mc})

    # ---- leg 2: behaviours generated by TLC from the specification, executed on the real allocator / C interface
    nontrivial = set()
    allv = '"direct", "new", "newarray"'
    allf = ", ".join('"%s"' % f for f in CF)
    gens = [
        # every workload of D calls on the failable allocator: each allocation point in turn designated
        ("bfs-failable", {"locs": "1, 2", "ns": "1, 2", "cds": "1", "maxpending": 2, "D": 4 if quick else 5, "vias": '"direct"', "fns": "", "ops": q(FOPS)}, None, None),
        # the C interface with the failable allocator underneath
        ("bfs-c", {"locs": "1", "ns": "1, 2", "cds": "0, 1, 2", "maxpending": 1, "D": 3 if quick else 4, "vias": '"new"', "fns": '"malloc", "strdup"',
                   "ops": q(FOPS + COPS + AGAIN)}, None, None),
        # the C-level injection interleaved with the malloc statistics that count the same allocations: every history of D calls
        ("bfs-cstat", {"locs": "1", "ns": "1", "cds": "1, 2, 3", "maxpending": 1, "D": 4 if quick else 5, "vias": '"direct"', "fns": '"malloc", "calloc"',
                       "ops": q(COPS + SOPS)}, None, None),
        # entering the simulation again before it is cleared, clearing it (entered or not) and allocating after: every history of D calls
        # (set_out_of_memory / set_not_out_of_memory whenever, countdown -1 / 0 / 1 re-armed, one C function, one location); thorough: also
        # with the test changing its malloc allocator (failable <-> plain) in between
        ("bfs-reenter", {"locs": "1", "ns": "1", "cds": "0, 1", "maxpending": 1, "D": 5 if quick else 6, "vias": '"direct"', "fns": '"malloc"',
                         "ops": q(["countdown", "c"] + AGAIN)}, None, None),
    ] + ([] if quick else [
        ("bfs-reenter-install", {"locs": "1", "ns": "1", "cds": "0, 1", "maxpending": 1, "D": 5, "vias": '"direct"', "fns": '"malloc"',
                                 "ops": q(["countdown", "c"] + AGAIN + IOPS)}, None, None),
    ]) + [
        ("sim", {"locs": "1, 2, 3", "ns": "0, 1, 2, 3, 4", "cds": "0, 1, 2, 3", "maxpending": 4, "D": 30, "vias": allv, "fns": allf,
                 "ops": q(FOPS + COPS + SOPS + IOPS + AGAIN)},
         25 if quick else 250, 36),
        # the same, the C interface only (designations by global index underneath): longer stays in and around the simulation
        ("sim-c", {"locs": "1, 2", "ns": "1, 2", "cds": "0, 1, 2", "maxpending": 2, "D": 24, "vias": '"direct"', "fns": allf,
                   "ops": q(["failnum", "clear"] + COPS + IOPS + AGAIN)},
         15 if quick else 150, 30),
    ]
    for (lab, gen, sim, depth) in gens:
        g = ctx.tlc("Gen_FailAlloc", ctx.write_cfg("Gen_FailAlloc_" + lab, GEN % gen), workers=8, simulate=sim, depth=depth, timeout=1800, heap="8g")
        execs = [[[st[f] for f in FIELDS] for st in h] for h in g.beh]
        if not execs:
            raise Infra("no behaviours generated by " + lab)
        ctx.sample({"source": "TLC " + lab, "execution": ["\t".join(map(str, l)) for l in execs[ctx.rng.randrange(len(execs))]][:14]})
        conform(ctx, lab, execs, harness, "Trace_FailAlloc", tcfg, pcfg, key_fn, tlc_timeout=1800, max_report=3)
        ctx.evaluations += sum(len(e) for e in execs)
        for e in execs:
            if any(l[0] in ("failnum", "failat", "countdown", "setoom") for l in e) and any(l[0] in ("alloc", "c") for l in e):
                nontrivial.add(json.dumps(e))

    # ---- leg 3: seeded random workloads, validated against the specification
    nexec, nops = (40, 60) if quick else (400, 120)
    execs = [random_exec(ctx.rng, nops, profile="c" if i % 2 else "mixed") for i in range(nexec)]
    ctx.sample({"source": "seeded random driver", "execution": ["\t".join(map(str, l)) for l in execs[0][:14]]})
    conform(ctx, "random", execs, harness, "Trace_FailAlloc", tcfg, pcfg, key_fn, tlc_timeout=2400, max_report=3)
    ctx.evaluations += sum(len(e) for e in execs)
    for e in execs:
        nontrivial.add(json.dumps(e))
    return ctx.finish(
        rule="executions = TLC-generated behaviours of FailAlloc (exhaustive to depth D: failable allocator over 2 locations x n<=2; C interface "
             "with countdowns 0..2 over malloc/strdup; C-level injection x malloc statistics (count reset / get count) with countdowns -1,1..3 over malloc/calloc; the simulation entered again before "
             "it is cleared (set_out_of_memory whenever, countdowns -1/0/1 re-armed), cleared whether entered or not and allocated after, in the thorough tier also with the test's malloc allocator changing (failable / plain); "
             "simulation to depth 30 over 3 locations, n<=4, all doors and C functions, and to depth 24 over the C interface alone) plus seeded "
             "random workloads (mixed and C-interface-heavy profiles, both with the statistics calls and allocator changes interleaved), each run on the real FailableMemoryAllocator / cpputest_malloc_* under "
             "ASan/UBSan - the harness installs the test's malloc allocator only where the script says so, never after set_not_out_of_memory; distinct = distinct call "
             "sequences; non-trivial = contains an injection and an allocation",
        distinct_nontrivial=len(nontrivial), exhaustive=False,
        assumptions=["a location designation counts the allocations made at its location from the moment it is placed; a global designation counts from the last clear",
                     "when several pending designations name the same allocation the specification accepts any non-empty subset of them being used up",
                     "while the C interface is out of memory the test's malloc allocator (the failable one) is not consulted",
                     "cpputest_malloc_set_not_out_of_memory leaves the test's malloc allocator in charge - the one in place before the simulation, also when the simulation was entered "
                     "several times or not at all; the test changes its malloc allocator only outside the simulation (installing one over the null allocator is left open); which allocator "
                     "object is current is logged and predicted as a diagnostic only, the results of the allocations decide",
                     "reading or resetting the malloc statistics (cpputest_malloc_get_count / cpputest_malloc_count_reset) does not move a running countdown; the "
                     "value of the counter is logged and predicted as a diagnostic only (the statement does not say what it counts)",
                     "only NULL / non-NULL (std::bad_alloc for new) and the outcome of checkAllFailedAllocsWereDone are compared"])
