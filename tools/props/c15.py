"""C15 - injected out-of-memory hits exactly the designated allocations (FailAlloc.tla)."""
import os, json
from vlib.core import Infra
from vlib.conform import conform
from harnessrun import run_harness

MC = """SPECIFICATION Spec
CONSTANTS
  Locs = {%(locs)s}
  Ns = {%(ns)s}
  Countdowns = {%(cds)s}
  MaxAllocs = %(maxallocs)d
  MaxPending = %(maxpending)d
  MaxCount = %(maxcount)d
INVARIANTS TypeOK ExactlyDesignated ReportsUndone PendingLive ClearRestores CountdownFires CountdownNotEarly NotOomRestores CountResetZeroes
PROPERTIES OomMeansNull CountsCAllocs StatsLeaveInjection
CHECK_DEADLOCK FALSE
"""
GEN = """SPECIFICATION GSpec
CONSTANTS
  Locs = {%(locs)s}
  Ns = {%(ns)s}
  Countdowns = {%(cds)s}
  MaxAllocs = 1000000
  MaxPending = %(maxpending)d
  MaxCount = 1000000
  D = %(D)d
  Vias = {%(vias)s}
  Fns = {%(fns)s}
  Ops = {%(ops)s}
INVARIANTS Dump
CHECK_DEADLOCK FALSE
"""
TRACE = """SPECIFICATION %(spec)s
CONSTANTS
  Locs = {1, 2, 3, 4, 5, 6}
  Ns = {1}
  Countdowns = {1}
  MaxAllocs = 1
  MaxPending = 1
  MaxCount = 1
%(tail)s
CHECK_DEADLOCK FALSE
"""
FIELDS = ["op", "via", "loc", "n"]
CF = ["malloc", "calloc", "strdup", "strndup"]
FOPS = ["failnum", "failat", "alloc", "checkdone", "clear"]            # the failable allocator
COPS = ["countdown", "setoom", "setnotoom", "c"]                        # the C-level injection
SOPS = ["countreset", "getcount"]                                       # the malloc statistics that count the same C allocations
q = lambda names: ", ".join('"%s"' % x for x in names)


def random_exec(rng, nops, nloc=4):
    """Seeded random workload: designations (global and by location, several per location, some coinciding, some in the
    past), allocations mixing locations and doors, countdowns of every small value, checks and clears, and the malloc
    statistics read / reset in between."""
    ex = []
    for _ in range(nops):
        r = rng.random()
        loc = rng.randrange(1, nloc + 1)
        if r < 0.10:
            ex.append(["failnum", "", 0, rng.choice([0, 1, 1, 2, 2, 3, 4, 6, 9])])
        elif r < 0.24:
            ex.append(["failat", "", loc, rng.choice([0, 1, 1, 2, 2, 3, 4])])
        elif r < 0.53:
            ex.append(["alloc", rng.choice(["direct", "new", "newarray"]), loc, 0])
        elif r < 0.57:
            ex.append(["countreset", "", 0, 0])
        elif r < 0.60:
            ex.append(["getcount", "", 0, 0])
        elif r < 0.78:
            ex.append(["c", rng.choice(CF), loc, 0])
        elif r < 0.83:
            ex.append(["checkdone", "", 0, 0])
        elif r < 0.88:
            ex.append(["clear", "", 0, 0])
        elif r < 0.94:
            ex.append(["countdown", "", 0, rng.choice([-1, 0, 1, 1, 2, 2, 3, 5])])
        elif r < 0.96:
            ex.append(["setoom", "", 0, 0])
        else:
            ex.append(["setnotoom", "", 0, 0])
    return ex


def history_class(ex, idx, loc):
    """The class of the history before call idx (an allocation at loc), which the key of a divergence names: how many
    location designations were placed since the last clear for this location / for other locations, how many global
    ones, the C-level injection in force, and whether the malloc statistics were reset while it was in force."""
    here = elsewhere = num = 0
    cd = ""
    for ln in ex[:idx]:
        op = ln[0]
        if op == "clear":
            here = elsewhere = num = 0
        elif op == "failnum":
            num += 1
        elif op == "failat":
            if str(ln[2]) == str(loc):
                here += 1
            else:
                elsewhere += 1
        elif op == "countdown":
            cd = "countdown"
        elif op == "setoom":
            cd = "oom"
        elif op == "setnotoom":
            cd = ""
        elif op == "countreset" and cd:
            cd = cd.split("+")[0] + "+countreset"
    return here, elsewhere, num, cd


def run(ctx):
    quick = ctx.quick
    exe = ctx.build_harness("failalloc", "asan")

    def key_fn(kind, ex, idx, observed):
        if idx >= len(ex):
            return "%s:end" % kind
        ln = ex[idx]
        here, elsewhere, num, cd = history_class(ex, idx, ln[2])
        what = ln[0] if ln[0] != "c" else "c-" + str(ln[1])
        res = (observed or {}).get("res", "") if kind == "reject" else ""
        cap = lambda n: str(n) if n < 2 else "2+"
        return ":".join(x for x in [kind, what, res, "at-here=" + cap(here), "at-elsewhere=" + cap(elsewhere), "num=" + cap(num), cd] if x)

    tcfg = ctx.write_cfg("Trace_FailAlloc", TRACE % {"spec": "TSpec", "tail": "INVARIANT TInv\nPOSTCONDITION Accepted"})
    pcfg = ctx.write_cfg("Predict_FailAlloc", TRACE % {"spec": "PSpec", "tail": "INVARIANT Predict"})
    harness = lambda s, l: run_harness(ctx, [exe, s, l], l, timeout=900)

    if ctx.replay:
        rp = json.load(open(ctx.replay))
        ex = [l.split("\t") for l in rp["script"]]
        conform(ctx, "replay", [ex], harness, "Trace_FailAlloc", tcfg, pcfg, key_fn, meta=rp.get("meta"))
        return ctx.finish("replay of one recorded execution", 1)

    # ---- leg 1: the specification satisfies the property (exhaustive, small constants)
    mc = ({"locs": "1, 2", "ns": "1, 2", "cds": "0, 1, 2", "maxallocs": 3, "maxpending": 2, "maxcount": 2} if quick else
          {"locs": "1, 2, 3", "ns": "1, 2, 3", "cds": "0, 1, 2", "maxallocs": 4, "maxpending": 2, "maxcount": 2})
    r = ctx.model_check("FailAlloc", ctx.write_cfg("MC_FailAlloc", MC % mc), workers=8, timeout=1800, heap="12g")
    ctx.notes["model"] = {"distinct_states": r.distinct, "depth": r.depth, "constants": mc}

    # ---- leg 2: behaviours generated by TLC from the specification, executed on the real allocator / C interface
    nontrivial = set()
    allv = '"direct", "new", "newarray"'
    allf = ", ".join('"%s"' % f for f in CF)
    gens = [
        # every workload of D calls on the failable allocator: each allocation point in turn designated
        ("bfs-failable", {"locs": "1, 2", "ns": "1, 2", "cds": "1", "maxpending": 2, "D": 4 if quick else 5, "vias": '"direct"', "fns": "", "ops": q(FOPS)}, None, None),
        # the C interface with the failable allocator underneath
        ("bfs-c", {"locs": "1", "ns": "2", "cds": "0, 1, 2", "maxpending": 1, "D": 3 if quick else 4, "vias": '"new"', "fns": '"malloc", "strdup"',
                   "ops": q(FOPS + COPS)}, None, None),
        # the C-level injection interleaved with the malloc statistics that count the same allocations: every history of D calls
        ("bfs-cstat", {"locs": "1", "ns": "1", "cds": "1, 2, 3", "maxpending": 1, "D": 4 if quick else 5, "vias": '"direct"', "fns": '"malloc", "calloc"',
                       "ops": q(COPS + SOPS)}, None, None),
        ("sim", {"locs": "1, 2, 3", "ns": "0, 1, 2, 3, 4", "cds": "0, 1, 2, 3", "maxpending": 4, "D": 30, "vias": allv, "fns": allf, "ops": q(FOPS + COPS + SOPS)},
         25 if quick else 250, 36),
    ]
    for (lab, gen, sim, depth) in gens:
        g = ctx.tlc("Gen_FailAlloc", ctx.write_cfg("Gen_FailAlloc_" + lab, GEN % gen), workers=8, simulate=sim, depth=depth, timeout=1800, heap="8g")
        execs = [[[st[f] for f in FIELDS] for st in h] for h in g.beh]
        if not execs:
            raise Infra("no behaviours generated by " + lab)
        ctx.sample({"source": "TLC " + lab, "execution": ["\t".join(map(str, l)) for l in execs[ctx.rng.randrange(len(execs))]][:14]})
        conform(ctx, lab, execs, harness, "Trace_FailAlloc", tcfg, pcfg, key_fn, tlc_timeout=1800, max_report=3)
        ctx.evaluations += sum(len(e) for e in execs)
        for e in execs:
            if any(l[0] in ("failnum", "failat", "countdown", "setoom") for l in e) and any(l[0] in ("alloc", "c") for l in e):
                nontrivial.add(json.dumps(e))

    # ---- leg 3: seeded random workloads, validated against the specification
    nexec, nops = (40, 60) if quick else (400, 120)
    execs = [random_exec(ctx.rng, nops) for _ in range(nexec)]
    ctx.sample({"source": "seeded random driver", "execution": ["\t".join(map(str, l)) for l in execs[0][:14]]})
    conform(ctx, "random", execs, harness, "Trace_FailAlloc", tcfg, pcfg, key_fn, tlc_timeout=2400, max_report=3)
    ctx.evaluations += sum(len(e) for e in execs)
    for e in execs:
        nontrivial.add(json.dumps(e))
    return ctx.finish(
        rule="executions = TLC-generated behaviours of FailAlloc (exhaustive to depth D: failable allocator over 2 locations x n<=2; C interface "
             "with countdowns 0..2 over malloc/strdup; C-level injection x malloc statistics (count reset / get count) with countdowns -1,1..3 over malloc/calloc; simulation to depth 30 over 3 locations, n<=4, all doors and C functions) plus seeded "
             "random workloads (both with the statistics calls interleaved), each run on the real FailableMemoryAllocator / cpputest_malloc_* under ASan/UBSan; distinct = distinct call "
             "sequences; non-trivial = contains an injection and an allocation",
        distinct_nontrivial=len(nontrivial), exhaustive=False,
        assumptions=["a location designation counts the allocations made at its location from the moment it is placed; a global designation counts from the last clear",
                     "when several pending designations name the same allocation the specification accepts any non-empty subset of them being used up",
                     "while the C interface is out of memory the test's malloc allocator (the failable one) is not consulted",
                     "reading or resetting the malloc statistics (cpputest_malloc_get_count / cpputest_malloc_count_reset) does not move a running countdown; the "
                     "value of the counter is logged and predicted as a diagnostic only (the statement does not say what it counts)",
                     "only NULL / non-NULL (std::bad_alloc for new) and the outcome of checkAllFailedAllocsWereDone are compared"])
