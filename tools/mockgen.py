"""Shared by C08 and C19: conversion of Gen_Mock behaviours to harness scripts, configuration texts for Mock.tla,
and the seeded random scenario generator (unambiguous expectation sets by construction)."""
from props.c09 import enc as enc_value, enc_int, BITS, SIGNED


def enc(v):
    """value record -> script encoding; an object of a user type carries its type name and its fields: O|<type name>|a,b"""
    if v.get("t") == "obj":
        c = v["c"]
        return "O|%s|%s" % (v["tn"], ",".join(str(x) for x in (c if isinstance(c, (list, tuple)) else [c, c])))
    return enc_value(v)


CONST = """CONSTANTS
  Scopes <- %(scopes)s
  Fns = {%(fns)s}
  PNames = {%(pnames)s}
  Vals <- %(vals)s
  ONames = {%(onames)s}
  OData <- %(odata)s
  Objs = {%(objs)s}
  Rets <- %(rets)s
  MaxExp = %(maxexp)d
  Ns = {%(ns)s}
  MaxCalls = %(maxcalls)d
  RetGetters <- %(getters)s
  LateExpect = %(late)s
  Toggles = %(toggles)s
  MaxInst = %(maxinst)d
  DKeys <- %(dkeys)s
  DVals <- %(dvals)s
"""
MC_INV = ("INVARIANTS TypeOK DomainUnambiguous NeverOverConsumed CountsAgree ConsumedFits CandidatesSound VerdictExact "
          "UnfulfilledIsCountMismatch OutOfOrderIsOrderMismatch EarlyFailureJustified FailsOnce\n"
          "PROPERTIES InstallIsLocal BoundFunctionsStay\nCHECK_DEADLOCK FALSE\n")
TRACE_CONST = """CONSTANTS
  Scopes = {"", "s", "t"}
  Fns = {}
  PNames = {}
  Vals = {}
  ONames = {}
  OData = {}
  Objs = {}
  Rets = {}
  MaxExp = 0
  Ns = {}
  MaxCalls = 0
  RetGetters = {}
  LateExpect = TRUE
  Toggles = TRUE
  MaxInst = 0
  DKeys = {}
  DVals = {}
"""


def consts(**kw):
    d = dict(scopes="ScopesG", fns='"f", "g"', pnames='"p"', vals="Vals2", onames="", odata="NoData", objs="", rets="Rets1",
             maxexp=2, ns="0, 1, 2", maxcalls=3, getters="GetValue", late="FALSE", toggles="FALSE", maxinst=0, dkeys="NoKeys", dvals="NoData")
    d.update(kw)
    return CONST % d


def mc_cfg(**kw):
    return "SPECIFICATION Spec\n" + consts(**kw) + MC_INV


def gen_cfg(D, **kw):
    return "SPECIFICATION GSpec\n" + consts(**kw) + "  D = %d\nINVARIANTS Dump\nCHECK_DEADLOCK FALSE\n" % D


def trace_cfg(module_spec="TSpec", tail="INVARIANT TInv\nPOSTCONDITION Accepted"):
    return "SPECIFICATION %s\n%s%s\nCHECK_DEADLOCK FALSE\n" % (module_spec, TRACE_CONST, tail)


def outs_field(outs):
    """outs: dict name -> {ty, data(list of bytes)}"""
    if not outs:
        return "-"
    return ";".join("%s=%s:%s" % (k, outs[k]["ty"], bytes(outs[k]["data"]).hex()) for k in sorted(outs))


def ins_field(ins, order=None):
    if not ins:
        return "-"
    return ";".join("%s=%s" % (k, enc(ins[k])) for k in (order or sorted(ins)))


def expect_line(s, e, order=None):
    ret = e["ret"]
    return ["expect", s, e["fn"], e["n"], e["obj"], 1 if e["ign"] else 0, ins_field(e["ins"], order), outs_field(e["outs"]),
            "-" if ret.get("t") == "none" else enc(ret)]


def beh_to_exec(h):
    """history of Gen_Mock -> script lines (+ the end-of-test line)"""
    ex = []
    for c in h:
        op = c["op"]
        if op == "expect":
            e = dict(c["e"])
            e["ins"] = e["ins"] if isinstance(e["ins"], dict) else {}
            e["outs"] = e["outs"] if isinstance(e["outs"], dict) else {}
            ex.append(expect_line(c["s"], e))
        elif op == "begin":
            ex.append(["begin", c["s"], c["fn"]])
        elif op == "param":
            ex.append(["param", c["s"], c["k"], enc(c["v"])])
        elif op == "outparam":
            ex.append(["outparam", c["s"], c["k"], c["ty"]])
        elif op == "object":
            ex.append(["object", c["s"], c["o"]])
        elif op == "ret":
            g = c.get("g", "value") + ("/d" if c.get("od") else "")
            ex.append(["ret", c["s"], g, "support"] + ([enc(c["d"])] if c.get("od") else []))
        elif op == "strict":
            ex.append(["strict", c["s"]])
        elif op in ("installcmp", "installcpy"):
            ex.append([op, c["s"], c["tn"], c["md"]])
        elif op == "removeall":
            ex.append(["removeall", c["s"]])
        elif op == "setdata":
            ex.append(["setdata", c["s"], c["k"], enc(c["v"])])
        elif op == "getdata":
            ex.append(["getdata", c["s"], c["k"]])
        else:
            ex.append([op])
    ex.append(["end"])
    return ex


def assign_via(ex, rng, both_interfaces):
    """Chooses the door each return value is read through: "call" (the object / table actualCall returned) or "support"
    (the mock support object).  With both_interfaces the choice keeps the scenario expressible in C, where one static
    'current call' stands behind both doors: a read that does not directly follow its own call's sub-calls, or that
    addresses another scope than the call begun last, can only go through "support" and puts the scenario into the
    family "older-call"; after ignoreOtherCalls / disable (a call may be ignored) the main family reads through "call".
    -> (script, family)"""
    out, family = [], None
    last, contiguous, risky, begun = None, False, False, set()
    for l in ex:
        l = list(l)
        op = l[0]
        if op == "begin":
            last, contiguous = l[1], True
            begun.add(l[1])
        elif op in ("param", "outparam", "object"):
            contiguous = contiguous and l[1] == last
        elif op == "ret":
            if both_interfaces:
                if l[1] == last and contiguous:
                    l[3] = "call" if (risky or rng.random() < 0.5) else "support"
                else:
                    l[3] = "support"
                    family = "older-call"
            else:
                l[3] = "call" if (l[1] in begun and rng.random() < 0.5) else "support"
        elif op in ("ignoreothers", "disable"):
            risky = True
            contiguous = False
        elif op == "clear":
            last, contiguous, risky, begun = None, False, False, set()
        else:
            contiguous = False
        out.append(l)
    return out, family


# ------------------------------------------------------------------ random scenarios
def mk_int(code, value):
    neg = value < 0
    mag = -value if neg else value
    names = {"int": "int", "uint": "unsigned int", "long": "long int", "ulong": "unsigned long int", "llong": "long long int", "ullong": "unsigned long long int"}
    return {"t": names[code], "neg": neg, "m": [(mag >> 48) & 0xffff, (mag >> 32) & 0xffff, (mag >> 16) & 0xffff, mag & 0xffff]}


def fits(code, value):
    lo = -(1 << (BITS[code] - 1)) if code in SIGNED else 0
    hi = (1 << (BITS[code] - 1)) - 1 if code in SIGNED else (1 << BITS[code]) - 1
    return lo <= value <= hi


INT_ATOMS = [0, 1, 2, 3, 7, -1, -2, 2 ** 31 - 1, 2 ** 31, -2 ** 31, 2 ** 32 - 1, 2 ** 32, 2 ** 32 + 1, 2 ** 63 - 1, 2 ** 63, 2 ** 64 - 1, -2 ** 63, 1000, 65536]


class Atoms:
    """Parameter values as atoms: two different atoms can never be matched by one actual value, one atom can be
    spelled in several ways (an integer in every integer type that holds it; a double anywhere inside the tolerance)."""

    def __init__(self, rng, typed=True):
        self.rng = rng
        self.typed = typed

    def atom(self, kind=None):
        rng = self.rng
        kind = kind or (rng.choice(["int"] * 6 + ["str", "bool", "ptr", "cptr", "fptr", "mem", "dbl", "obj"]) if self.typed else "int")
        if kind == "int":
            return ("int", rng.choice(INT_ATOMS) if rng.random() < 0.6 else rng.randrange(-5, 6))
        if kind == "str":
            return ("str", rng.choice(["", "a", "ab", "aB", "hello", "x y"]))
        if kind == "bool":
            return ("bool", rng.random() < 0.5)
        if kind in ("ptr", "cptr", "fptr"):
            return (kind, rng.randrange(3))
        if kind == "mem":
            return ("mem", bytes(rng.randrange(256) for _ in range(rng.randrange(0, 5))))
        if kind == "dbl":
            return ("dbl", rng.randrange(-20, 20) * 1000)
        return ("obj", rng.choice(["TypeA", "TypeB"]), rng.randrange(1, 4))

    def other(self, a):
        """an atom of the same kind that differs"""
        for _ in range(50):
            b = self.atom(a[0])
            if b != a:
                return b
        return ("int", 12345)

    def spell(self, a, expected):
        """a value record for atom a; the expectation side of a double carries the tolerance"""
        rng = self.rng
        k = a[0]
        if k == "int":
            codes = [c for c in BITS if fits(c, a[1])]
            return mk_int(rng.choice(codes), a[1])
        if k == "str":
            return {"t": "const char*", "s": a[1]}
        if k == "bool":
            return {"t": "bool", "b": a[1]}
        if k in ("ptr", "cptr", "fptr"):
            return {"t": {"ptr": "void*", "cptr": "const void*", "fptr": "void (*)()"}[k], "id": a[1]}
        if k == "mem":
            return {"t": "const unsigned char*", "bytes": list(a[1])}
        if k == "dbl":
            if expected:
                return {"t": "double", "v": {"k": "fin", "neg": a[1] < 0, "q": a[1]}, "tol": {"k": "fin", "neg": False, "q": rng.choice([0, 0, 1, 8, 100])}}
            q = a[1]
            return {"t": "double", "v": {"k": "fin", "neg": q < 0, "q": q}, "tol": {"k": "fin", "neg": False, "q": 0}}
        return {"t": "obj", "tn": a[1], "c": a[2]}


def double_within(rng, expv):
    """an actual double inside (or on the edge of) the expectation's tolerance"""
    q = expv["v"]["q"] + rng.choice([0, 1, -1]) * rng.choice([0, expv["tol"]["q"]])
    return {"t": "double", "v": {"k": "fin", "neg": q < 0, "q": q}, "tol": {"k": "fin", "neg": False, "q": 0}}


def random_scenario(rng, typed=True, c_compatible=False, max_exp=12, max_calls=30):
    """One scenario: flags, expectations (unambiguous by construction), actual calls derived from them with a few
    deviations, check, end.  c_compatible: only what the C interface can express (no objects; the sub-calls of one
    call are contiguous)."""
    A = Atoms(rng, typed)
    lines = []
    scopes = [""] if rng.random() < 0.75 else rng.choice([["", "s"], ["s"], ["", "s", "t"]])
    strict = {s: rng.random() < 0.25 for s in scopes}
    ignore_others = rng.random() < 0.2
    if ignore_others:
        lines.append(["ignoreothers"])
    for s in scopes:
        if strict[s]:
            lines.append(["strict", s])
    fns = ["f%d" % i for i in range(rng.randrange(1, 4))]
    shape = {}
    for s in scopes:
        for fn in fns:
            names = rng.sample(["p", "q", "r"], rng.randrange(0, 3 if rng.random() < 0.8 else 4))
            onames = rng.sample(["x", "y"], rng.choice([0, 0, 0, 1, 1, 2]))
            shape[(s, fn)] = dict(names=names, onames=onames, kinds={k: A.atom()[0] for k in names},
                                  otys={k: (rng.choice(["raw", "raw", "TypeA"]) if typed else "raw") for k in onames},
                                  objs=(not c_compatible) and rng.random() < 0.25)
    exps = []       # (scope, exp record, atoms)
    nexp = rng.randrange(1, max_exp + 1)
    for _ in range(nexp):
        s = rng.choice(scopes)
        fn = rng.choice(fns)
        sh = shape[(s, fn)]
        same = [x for x in exps if x[0] == s and x[1]["fn"] == fn]
        if same and rng.random() < 0.3:
            src = rng.choice(same)       # an identical expectation (multiplicity)
            e = dict(src[1]); e["n"] = rng.choice([1, 1, 2])
            exps.append((s, e, src[2]))
            continue
        if not sh["names"] and not sh["objs"] and same:
            continue                     # nothing to tell it apart from the existing ones
        for _try in range(20):
            atoms = {k: A.atom(sh["kinds"][k]) for k in sh["names"]}
            obj = rng.randrange(1, 4) if sh["objs"] else 0
            if all(any(atoms[k] != o[2]["atoms"][k] for k in sh["names"]) or (obj and o[2]["obj"] and obj != o[2]["obj"]) for o in same):
                break
        else:
            continue
        ins = {k: A.spell(atoms[k], True) for k in sh["names"]}
        outs = {}
        for k in sh["onames"]:
            if sh["otys"][k] == "raw":
                outs[k] = {"ty": "raw", "data": [rng.randrange(256) for _ in range(rng.choice([0, 1, 2, 4, 8]))]}
            else:
                outs[k] = {"ty": sh["otys"][k], "data": [rng.randrange(1, 200), 0, 0, 0]}
        ret = {"t": "none"}
        if rng.random() < 0.5:
            ra = A.atom(rng.choice(["int", "int", "str", "bool", "ptr", "cptr", "fptr", "dbl"]) if typed else "int")
            ret = A.spell(ra, False)
        e = {"fn": fn, "obj": obj, "ins": ins, "outs": outs, "ign": rng.random() < 0.2, "n": rng.choice([1, 1, 1, 2, 3, 0]), "ret": ret}
        exps.append((s, e, {"atoms": atoms, "obj": obj}))
    for s, e, _ in exps:
        order = list(e["ins"]); rng.shuffle(order)
        lines.append(expect_line(s, e, order))
    # the calls that would fulfil everything
    calls = []
    for s, e, meta in exps:
        for _ in range(e["n"]):
            calls.append([s, e, meta])
    if not any(strict.values()) or rng.random() < 0.3:
        rng.shuffle(calls)
    elif rng.random() < 0.3 and len(calls) > 1:
        i = rng.randrange(len(calls) - 1)
        calls[i], calls[i + 1] = calls[i + 1], calls[i]
    calls = calls[:max_calls]
    # deviations
    dev = rng.random()
    if dev < 0.12 and calls:
        calls.pop(rng.randrange(len(calls)))                    # a call that never comes
    elif dev < 0.24 and calls:
        calls.insert(rng.randrange(len(calls) + 1), list(rng.choice(calls)))   # a surplus call
    elif dev < 0.30:
        calls.insert(rng.randrange(len(calls) + 1), [rng.choice(scopes), None, None])   # a call to a function nobody expects
    mutate_at = rng.randrange(len(calls)) if calls and 0.30 <= dev < 0.62 else -1
    pending = []
    for ci, (s, e, meta) in enumerate(calls):
        if e is None:
            lines.append(["begin", s, "nobody"])
            if rng.random() < 0.5:
                lines.append(["param", s, "p", enc(mk_int("int", 1))])
            continue
        lines.append(["begin", s, e["fn"]])
        subs = []
        for k, v in e["ins"].items():
            a = meta["atoms"][k]
            av = double_within(rng, v) if a[0] == "dbl" else A.spell(a, False)
            subs.append(["param", s, k, enc(av)])
        for k, o in e["outs"].items():
            subs.append(["outparam", s, k, o["ty"]])
        if e["obj"] or (not c_compatible and rng.random() < 0.1):
            subs.append(["object", s, e["obj"] or rng.randrange(1, 4)])
        if e["ign"] and rng.random() < 0.6:
            subs.append(["param", s, "extra", enc(mk_int("int", rng.randrange(3)))])
        rng.shuffle(subs)
        if ci == mutate_at and subs:
            j = rng.randrange(len(subs))
            kind = rng.random()
            if kind < 0.3:
                subs.pop(j)                                                    # missing parameter / object
            elif kind < 0.6 and subs[j][0] == "param" and subs[j][2] in meta["atoms"]:
                subs[j] = ["param", s, subs[j][2], enc(A.spell(A.other(meta["atoms"][subs[j][2]]), False))]   # wrong value
            elif kind < 0.75:
                subs.insert(j, ["param", s, "zz", enc(mk_int("int", 1))])      # unknown parameter name
            elif kind < 0.85 and subs[j][0] == "object":
                subs[j] = ["object", s, (subs[j][2] % 3) + 1]                  # another object
            elif kind < 0.93 and subs[j][0] == "outparam":
                subs[j] = ["outparam", s, subs[j][2], "TypeB" if typed else "raw"]   # another output type
            else:
                subs.insert(j, ["outparam", s, "w", "raw"])                    # unknown output parameter
        lines.extend(subs)
        r = rng.random()
        if r < 0.45:
            lines.append(["ret", s, "value", "support"])
        elif r < 0.5:
            lines.append(["left"])
    if rng.random() < 0.85:
        lines.append(["check"])
    lines.append(["end"])
    return lines
