"""Shared by C08 and C19: conversion of Gen_Mock behaviours to harness scripts, configuration texts for Mock.tla,
and the seeded random scenario generator (unambiguous expectation sets by construction)."""
from props.c09 import enc as enc_value, enc_int, BITS, SIGNED


def enc(v):
    """value record -> script encoding; an object of a user type carries its type name, its fields and - when it is not an
    object of its own - which shared object holds them: O|<type name>|a,b[|id]"""
    if v.get("t") == "obj":
        c = v["c"]
        return "O|%s|%s" % (v["tn"], ",".join(str(x) for x in (c if isinstance(c, (list, tuple)) else [c, c]))) + ("|%d" % v["id"] if v.get("id") else "")
    return enc_value(v)


CONST = """CONSTANTS
  Scopes <- %(scopes)s
  Fns = {%(fns)s}
  PNames = {%(pnames)s}
  Vals <- %(vals)s
  ONames = {%(onames)s}
  OData <- %(odata)s
  Objs <- %(objs)s
  Rets <- %(rets)s
  MaxExp = %(maxexp)d
  Ns = {%(ns)s}
  MaxCalls = %(maxcalls)d
  RetGetters <- %(getters)s
  LateExpect = %(late)s
  Toggles = %(toggles)s
  Flags = %(flags)s
  Phases = %(phases)s
  MaxInst = %(maxinst)d
  DKeys <- %(dkeys)s
  DVals <- %(dvals)s
"""
MC_INV = ("INVARIANTS TypeOK DomainUnambiguous NeverOverConsumed CountsAgree ConsumedFits CandidatesSound VerdictExact "
          "UnfulfilledIsCountMismatch OutOfOrderIsOrderMismatch EarlyFailureJustified FailsOnce\n"
          "PROPERTIES InstallIsLocal BoundFunctionsStay VerdictIsFirstDeviation\nCHECK_DEADLOCK FALSE\n")
TRACE_CONST = """CONSTANTS
  Scopes = {"", "s", "t"}
  Fns = {}
  PNames = {}
  Vals = {}
  ONames = {}
  OData = {}
  Objs = {}
  Rets = {}
  MaxExp = 0
  Ns = {}
  MaxCalls = 0
  RetGetters = {}
  LateExpect = TRUE
  Toggles = TRUE
  Flags = TRUE
  Phases = TRUE
  MaxInst = 0
  DKeys = {}
  DVals = {}
"""


def consts(**kw):
    d = dict(scopes="ScopesG", fns='"f", "g"', pnames='"p"', vals="Vals2", onames="", odata="NoData", objs="NoObjs", rets="Rets1",
             maxexp=2, ns="0, 1, 2", maxcalls=3, getters="GetValue", late="FALSE", toggles="FALSE", flags="TRUE", phases="FALSE", maxinst=0, dkeys="NoKeys", dvals="NoData")
    d.update(kw)
    # objs: a set of object identities defined in MC_Mock (NoObjs, Objs1, Objs12, ObjsN1, ObjsN12: N = the null pointer among them)
    # cmpx: the comparison functions the enumerated domain installs (default: all of Mock!CmpModes)
    return CONST % d + ("  CmpExplored <- %s\n" % d["cmpx"] if d.get("cmpx") else "")


def mc_cfg(**kw):
    return "SPECIFICATION Spec\n" + consts(**kw) + MC_INV


def gen_cfg(D, **kw):
    return "SPECIFICATION GSpec\n" + consts(**kw) + "  D = %d\nINVARIANTS Dump\nCHECK_DEADLOCK FALSE\n" % D


def trace_cfg(module_spec="TSpec", tail="INVARIANT TInv\nPOSTCONDITION Accepted"):
    return "SPECIFICATION %s\n%s%s\nCHECK_DEADLOCK FALSE\n" % (module_spec, TRACE_CONST, tail)


def outs_field(outs):
    """outs: dict name -> {ty, data(list of bytes)}"""
    if not outs:
        return "-"
    return ";".join("%s=%s:%s" % (k, outs[k]["ty"], bytes(outs[k]["data"]).hex()) for k in sorted(outs))


def ins_field(ins, order=None):
    if not ins:
        return "-"
    return ";".join("%s=%s" % (k, enc(ins[k])) for k in (order or sorted(ins)))


def expect_line(s, e, order=None):
    ret = e["ret"]
    return ["expect", s, e["fn"], e["n"], e["obj"], 1 if e["ign"] else 0, ins_field(e["ins"], order), outs_field(e["outs"]),
            "-" if ret.get("t") == "none" else enc(ret)]


def beh_to_exec(h):
    """history of Gen_Mock -> script lines (+ the end-of-test line)"""
    ex = []
    for c in h:
        op = c["op"]
        if op == "expect":
            e = dict(c["e"])
            e["ins"] = e["ins"] if isinstance(e["ins"], dict) else {}
            e["outs"] = e["outs"] if isinstance(e["outs"], dict) else {}
            ex.append(expect_line(c["s"], e))
        elif op == "begin":
            ex.append(["begin", c["s"], c["fn"]])
        elif op == "param":
            ex.append(["param", c["s"], c["k"], enc(c["v"])])
        elif op == "outparam":
            ex.append(["outparam", c["s"], c["k"], c["ty"]])
        elif op == "object":
            ex.append(["object", c["s"], c["o"]])
        elif op == "ret":
            g = c.get("g", "value") + ("/d" if c.get("od") else "")
            ex.append(["ret", c["s"], g, "support"] + ([enc(c["d"])] if c.get("od") else []))
        elif op == "strict":
            ex.append(["strict", c["s"]])
        elif op in ("installcmp", "installcpy"):
            ex.append([op, c["s"], c["tn"], c["md"]])
        elif op == "removeall":
            ex.append(["removeall", c["s"]])
        elif op == "setdata":
            ex.append(["setdata", c["s"], c["k"], enc(c["v"])])
        elif op == "getdata":
            ex.append(["getdata", c["s"], c["k"]])
        else:
            ex.append([op])
    ex.append(["end"])
    return ex


def assign_via(ex, rng, both_interfaces):
    """Chooses the door each return value is read through: "call" (the object / table actualCall returned) or "support"
    (the mock support object).  With both_interfaces the choice keeps the scenario expressible in C, where one static
    'current call' stands behind both doors: a read that does not directly follow its own call's sub-calls, or that
    addresses another scope than the call begun last, can only go through "support" and puts the scenario into the
    family "older-call"; after ignoreOtherCalls / disable (a call may be ignored) the main family reads through "call".
    -> (script, family)"""
    out, family = [], None
    last, contiguous, risky, begun = None, False, False, set()
    for l in ex:
        l = list(l)
        op = l[0]
        if op == "begin":
            last, contiguous = l[1], True
            begun.add(l[1])
        elif op in ("param", "outparam", "object"):
            contiguous = contiguous and l[1] == last
        elif op == "ret":
            if both_interfaces:
                if l[1] == last and contiguous:
                    l[3] = "call" if (risky or rng.random() < 0.5) else "support"
                else:
                    l[3] = "support"
                    family = "older-call"
            else:
                l[3] = "call" if (l[1] in begun and rng.random() < 0.5) else "support"
        elif op in ("ignoreothers", "disable"):
            risky = True
            contiguous = False
        elif op == "clear":
            last, contiguous, risky, begun = None, False, False, set()
        elif op == "failcheck":
            pass                                  # (what follows in the body is not executed)
        elif op in ("installcmp", "installcpy", "removeall", "setdata", "getdata"):
            contiguous = contiguous and l[1] == last      # they address a scope (C: the 'current mock support'), not the current call
        else:
            contiguous = False
        out.append(l)
    return out, family


# ------------------------------------------------------------------ the test around a scenario: body, failing check, teardown
def teardown_cuts(ex):
    """the lines of a scenario in front of which the body of the test may end: the rest (up to `end') is then the test's teardown.
    The teardown must stand on its own in both interfaces: the first sub-call or return-value read after the cut belongs to an
    actual call begun after it"""
    cuts = []
    fresh = True                                 # scanning backwards: the lines from here on start no sub-call / read of an earlier call
    for i in range(len(ex) - 1, -1, -1):
        op = ex[i][0]
        if op in ("param", "outparam", "object", "ret"):
            fresh = False                        # needs its `begin' inside the teardown
        elif op == "begin":
            fresh = True
        if fresh:
            cuts.append(i)
    return sorted(cuts)


def with_phases(ex, rng, fail=None):
    """the scenario as a test with a body and a teardown: the body ends in front of one of teardown_cuts(ex); with fail (default: two
    times out of three) a check of the test itself fails somewhere in the body - the rest of the body is then not executed, the
    teardown is.  None if the scenario cannot be split"""
    ex = [list(l) for l in ex if l[0] not in ("teardown", "failcheck")]
    cuts = teardown_cuts(ex)
    if not cuts or ex[-1][0] != "end":
        return None
    c = rng.choice(cuts[-3:] if rng.random() < 0.6 else cuts)          # (teardowns are short more often than not)
    fail = (rng.random() < 0.67) if fail is None else fail
    body = ex[:c]
    if fail:
        body.insert(rng.randrange(len(body) // 2 if rng.random() < 0.5 else 0, len(body) + 1), ["failcheck"])
    return body + [["teardown"]] + ex[c:]


# ------------------------------------------------------------------ random scenarios
def mk_int(code, value):
    neg = value < 0
    mag = -value if neg else value
    names = {"int": "int", "uint": "unsigned int", "long": "long int", "ulong": "unsigned long int", "llong": "long long int", "ullong": "unsigned long long int"}
    return {"t": names[code], "neg": neg, "m": [(mag >> 48) & 0xffff, (mag >> 32) & 0xffff, (mag >> 16) & 0xffff, mag & 0xffff]}


def fits(code, value):
    lo = -(1 << (BITS[code] - 1)) if code in SIGNED else 0
    hi = (1 << (BITS[code] - 1)) - 1 if code in SIGNED else (1 << BITS[code]) - 1
    return lo <= value <= hi


INT_ATOMS = [0, 1, 2, 3, 7, -1, -2, 2 ** 31 - 1, 2 ** 31, -2 ** 31, 2 ** 32 - 1, 2 ** 32, 2 ** 32 + 1, 2 ** 63 - 1, 2 ** 63, 2 ** 64 - 1, -2 ** 63, 1000, 65536]


BUILTIN_TYPE_NAMES = ["bool", "int", "unsigned int", "long int", "unsigned long int", "long long int", "unsigned long long int", "double",
                      "const char*", "void*", "const void*", "void (*)()", "const unsigned char*"]
PLAIN_TYPE_NAMES = ["TypeA", "TypeB", "Packet", "device"]


def user_type_names():
    """ordinary names of user types, as data: names that have nothing to do with a built-in type name, names that BEGIN like one
    (intPair, boolean_flag, doubleBox, unsigned int_t ...), names that END like one, and proper prefixes of one"""
    out = list(PLAIN_TYPE_NAMES) + ["intPair", "boolean_flag", "doubleBox", "integer", "long integer"]
    for b in BUILTIN_TYPE_NAMES:
        out.append(b + "Box")
        if b[-1].isalpha():
            out.append(b + "_t")
        out.append("my_" + b)
        out.append(b[:-1])
    seen, res = set(), []
    for n in out:
        if n not in seen and n not in BUILTIN_TYPE_NAMES and not set(n) & set("|;=:,\t"):
            seen.add(n)
            res.append(n)
    return res


CMP_MODES = ["whole", "first", "never", "always", "less"]       # Mock!CmpModes
NULL_OBJ = -1                     # Mock!NullObj: the null pointer, an object identity like every other
OBJ_IDS = [NULL_OBJ, 1, 2, 3]     # the object identities of the random scenarios


def other_object(o):
    """an object identity that differs from o"""
    return OBJ_IDS[(OBJ_IDS.index(o) + 1) % len(OBJ_IDS)]

ODD_CMP_MODES = ["never", "always", "less"]


def obj_may_coincide(mode, a, b):
    """two expected objects of one type (first fields a, b), both bound to comparator `mode`: can one actual object match both?
    (Mock!ObjMayCoincide for equal modes)"""
    return {"whole": a == b, "first": a == b, "never": False, "always": True, "less": True}[mode]


class Repos:
    """python twin of Mock!Install / Touched / CmpOf, used only to derive actual values that the expectations will accept"""

    def __init__(self):
        self.r = {"": []}

    def view(self, s):
        return self.r[s] if s in self.r else list(reversed(self.r[""]))      # a scope that does not exist yet would inherit this

    def install(self, s, tn, cmp=None, cpy=None):
        self.r[s] = self.view(s)
        for x in (list(self.r) if s == "" else [s]):
            self.r[x].insert(0, (tn, cmp, cpy))

    def cmp(self, s, tn):
        return next((n[1] for n in self.view(s) if n[0] == tn and n[1]), None)

    def cpy(self, s, tn):
        return next((n[2] for n in self.view(s) if n[0] == tn and n[2]), None)


def install_plan(rng, scopes, cmp_types, cpy_types):
    """installation lines in front of a scenario: every scope ends up with a comparator for cmp_types and a copier for cpy_types;
    which function a scope has comes from the global scope (installed before or after the scope exists) or from the scope
    itself, and scopes may differ.  -> (lines, Repos)"""
    lines, R = [], Repos()
    # a type's comparison functions: usually equality of the whole object / of its first field (scopes may differ); now and then one
    # that is no equivalence - never equal, always equal, expected below actual - the same one in every scope
    cmp_modes = {tn: (["whole", "first"] if rng.random() < 0.75 else [rng.choice(ODD_CMP_MODES)]) for tn in cmp_types}
    jobs = [("installcmp", tn, cmp_modes[tn]) for tn in cmp_types] + [("installcpy", tn, ["plain", "inv"]) for tn in cpy_types]
    rng.shuffle(jobs)
    children = [s for s in scopes if s]

    def add(op, s, tn, md):
        lines.append([op, s, tn, md])
        R.install(s, tn, cmp=md if op == "installcmp" else None, cpy=md if op == "installcpy" else None)
    for op, tn, modes in jobs:
        style = rng.choice(["global", "global", "each", "override", "late-global", "twice"])
        if style == "global" or not children:
            seq = [""]
        elif style == "each":
            seq = rng.sample(scopes, len(scopes))
        elif style == "override":
            seq = [""] + [s for s in children if rng.random() < 0.7]
        elif style == "late-global":
            seq = children + [""]
        else:
            seq = ["", ""] + children[:1]
        for s in seq:
            add(op, s, tn, rng.choice(modes))
        for s in scopes:       # whoever is still without gets its own
            if (R.cmp(s, tn) if op == "installcmp" else R.cpy(s, tn)) is None:
                add(op, s, tn, rng.choice(modes))
    return lines, R


class Atoms:
    """Parameter values as atoms: two different atoms can never be matched by one actual value, one atom can be
    spelled in several ways (an integer in every integer type that holds it; a double anywhere inside the tolerance)."""

    def __init__(self, rng, typed=True, odd_tolerances=False):
        self.rng = rng
        self.typed = typed
        self.odd_tolerances = odd_tolerances      # double expectations also with tolerance 0, the default, negative tolerances
        self.types = rng.sample(user_type_names(), 2) if rng.random() < 0.7 else ["TypeA", "TypeB"]

    def atom(self, kind=None):
        rng = self.rng
        kind = kind or (rng.choice(["int"] * 6 + ["str", "bool", "ptr", "cptr", "fptr", "mem", "dbl", "obj"]) if self.typed else "int")
        if kind == "int":
            return ("int", rng.choice(INT_ATOMS) if rng.random() < 0.6 else rng.randrange(-5, 6))
        if kind == "str":
            return ("str", rng.choice(["", "a", "ab", "aB", "hello", "x y"]))
        if kind == "bool":
            return ("bool", rng.random() < 0.5)
        if kind in ("ptr", "cptr", "fptr"):
            return (kind, rng.randrange(3))
        if kind == "mem":
            return ("mem", bytes(rng.randrange(256) for _ in range(rng.randrange(0, 5))))
        if kind == "dbl":
            return ("dbl", rng.randrange(-20, 20) * 1000)
        return ("obj", rng.choice(self.types), rng.randrange(1, 4))       # the atom is the FIRST field; the second one is spelling

    @staticmethod
    def apart(a, b, cmp_of):
        """no actual value matches both atoms (objects: under the comparator cmp_of(type name) both expectations bind)"""
        if a[0] == "obj" and b[0] == "obj" and a[1] == b[1]:
            return not obj_may_coincide(cmp_of(a[1]), a[2], b[2])
        return a != b

    def other(self, a):
        """an atom of the same kind that differs"""
        for _ in range(50):
            b = self.atom(a[0])
            if b != a:
                return b
        return ("int", 12345)

    def spell(self, a, expected):
        """a value record for atom a; the expectation side of a double carries the tolerance"""
        rng = self.rng
        k = a[0]
        if k == "int":
            codes = [c for c in BITS if fits(c, a[1])]
            return mk_int(rng.choice(codes), a[1])
        if k == "str":
            return {"t": "const char*", "s": a[1]}
        if k == "bool":
            return {"t": "bool", "b": a[1]}
        if k in ("ptr", "cptr", "fptr"):
            return {"t": {"ptr": "void*", "cptr": "const void*", "fptr": "void (*)()"}[k], "id": a[1]}
        if k == "mem":
            return {"t": "const unsigned char*", "bytes": list(a[1])}
        if k == "dbl":
            if expected:
                tq = rng.choice([0, 0, 1, 8, 100])
                if self.odd_tolerances and rng.random() < 0.5:
                    tq = rng.choice([0, 0, DEFAULT_TOL_Q, DEFAULT_TOL_Q, 1, -1, -DEFAULT_TOL_Q, -1000])
                return {"t": "double", "v": {"k": "fin", "neg": a[1] < 0, "q": a[1]}, "tol": {"k": "fin", "neg": tq < 0, "q": tq}}
            q = a[1]
            return {"t": "double", "v": {"k": "fin", "neg": q < 0, "q": q}, "tol": {"k": "fin", "neg": False, "q": 0}}
        # which object: one of its own (0) or the 1st / 2nd shared object with that content
        return {"t": "obj", "tn": a[1], "c": [a[2], rng.randrange(1, 4)], "id": rng.choice([0, 0, 1, 2])}


def obj_within(rng, expv, mode):
    """an actual object the expectation's comparator accepts: the same first field; the second one matters in mode "whole"
    (now and then an actual value that only a "first" comparator accepts is passed to a "whole" one: a wrong value); a greater
    first field for "less" (now and then the same one); anything for "always" and - in vain - for "never".  The actual object is
    often the very object the expectation holds (same content, same identity), else the same content in another object."""
    a = expv["c"][0]
    b = expv["c"][1] if ((mode == "whole" and rng.random() < 0.9) or (mode in ODD_CMP_MODES and rng.random() < 0.6)) else rng.randrange(1, 4)
    if mode == "less" and rng.random() < 0.7:
        a += rng.randrange(1, 3)
    elif mode in ("always", "never") and rng.random() < 0.4:
        a = rng.randrange(1, 4)
    same_content = [a, b] == list(expv["c"])
    oid = expv.get("id", 0) if (same_content and rng.random() < 0.6) else rng.choice([0, 0, 1, 2, 3])
    return {"t": "obj", "tn": expv["tn"], "c": [a, b], "id": oid}


DEFAULT_TOL_Q = 5      # the interfaces' default tolerance 0.005 in units of the harness grid (2^-10)


def double_within(rng, expv, tiny=False):
    """an actual double inside (or on the edge of) the expectation's tolerance; tiny: now and then just outside of it - by one grid
    unit, which is less than the default tolerance -, and for a negative tolerance (which admits nothing) the expected value itself"""
    tq = expv["tol"]["q"]
    q = expv["v"]["q"] + rng.choice([0, 1, -1]) * rng.choice([0, max(tq, 0)])
    if tiny and rng.random() < 0.35:
        q = expv["v"]["q"] + rng.choice([1, -1]) * (max(tq, 0) + rng.choice([1, 1, DEFAULT_TOL_Q]))
    return {"t": "double", "v": {"k": "fin", "neg": q < 0, "q": q}, "tol": {"k": "fin", "neg": False, "q": 0}}


def data_lines(rng, scopes):
    """the data store: values of the supported kinds and objects of user types (const and non-const) are set, overwritten and read"""
    out = []
    names = ["k", "cfg", "flag"]
    tns = user_type_names()
    for _ in range(rng.randrange(1, 5)):
        s, k = rng.choice(scopes), rng.choice(names)
        kind = rng.choice(["obj", "obj", "int", "bool", "str", "dbl", "ptr"])
        if kind == "obj":
            out.append(["setdata", s, k, "O|%s|%d,%d" % (rng.choice(tns), rng.randrange(1, 4), rng.randrange(1, 4)), rng.choice(["const", "mut"])])
        elif kind == "int":
            out.append(["setdata", s, k, rng.choice([enc_int("int", rng.choice([-2 ** 31, -1, 0, 5, 2 ** 31 - 1])), enc_int("uint", rng.choice([0, 7, 2 ** 32 - 1]))])])
        elif kind == "bool":
            out.append(["setdata", s, k, "B|%d" % rng.randrange(2)])
        elif kind == "str":
            out.append(["setdata", s, k, "S|" + rng.choice(["", "hi", "int"]).encode().hex()])
        elif kind == "dbl":
            out.append(["setdata", s, k, "D|fin|0|%d|fin|0|0" % rng.randrange(0, 40)])
        else:
            out.append(["setdata", s, k, "P|%s|%d" % (rng.choice("vcf"), rng.randrange(3))])
        if rng.random() < 0.7:
            out.append(["getdata", rng.choice(scopes), rng.choice(names)])
    out.append(["getdata", rng.choice(scopes), rng.choice(names)])
    return out


def random_scenario(rng, typed=True, c_compatible=False, max_exp=12, max_calls=30, odd_tolerances=False):
    """One scenario: flags, expectations (unambiguous by construction), actual calls derived from them with a few
    deviations (a missing / surplus / unknown call, a wrong sub-call, a last call of a scope left in progress), check, end.  c_compatible: only what the C interface can express (no objects; the sub-calls of one
    call are contiguous).  odd_tolerances: double expectations also carry tolerance 0, the default tolerance, negative tolerances,
    and the actual values lie on either side of the tolerance's edge by one grid unit."""
    A = Atoms(rng, typed, odd_tolerances)
    lines = []
    scopes = [""] if rng.random() < (0.6 if typed else 0.75) else rng.choice([["", "s"], ["s"], ["", "s", "t"], ["s", "t"]])
    strict = {s: rng.random() < 0.25 for s in scopes}
    ignore_others = rng.random() < 0.2
    if ignore_others:
        lines.append(["ignoreothers"])
    for s in scopes:
        if strict[s]:
            lines.append(["strict", s])
    fns = ["f%d" % i for i in range(rng.randrange(1, 4))]
    shape = {}
    for s in scopes:
        for fn in fns:
            names = rng.sample(["p", "q", "r"], rng.randrange(0, 3 if rng.random() < 0.8 else 4))
            onames = rng.sample(["x", "y"], rng.choice([0, 0, 0, 1, 1, 2]))
            shape[(s, fn)] = dict(names=names, onames=onames, kinds={k: A.atom()[0] for k in names},
                                  otys={k: (rng.choice(["raw", "raw", A.types[0]]) if typed else "raw") for k in onames},
                                  objs=(not c_compatible) and rng.random() < 0.25)
    # user types: comparators for the parameter types, copiers for the output types, installed per scope in front of everything
    R = Repos()
    if typed:
        used_cmp = sorted({t for t in A.types})
        used_cpy = sorted({ty for sh in shape.values() for ty in sh["otys"].values() if ty != "raw"})
        inst, R = install_plan(rng, scopes, used_cmp, used_cpy)
        lines = inst + lines
    exps = []       # (scope, exp record, atoms)
    nexp = rng.randrange(1, max_exp + 1)
    for _ in range(nexp):
        s = rng.choice(scopes)
        fn = rng.choice(fns)
        sh = shape[(s, fn)]
        same = [x for x in exps if x[0] == s and x[1]["fn"] == fn]
        if same and rng.random() < 0.3:
            src = rng.choice(same)       # an identical expectation (multiplicity)
            e = dict(src[1]); e["n"] = rng.choice([1, 1, 2])
            exps.append((s, e, src[2]))
            continue
        if not sh["names"] and not sh["objs"] and same:
            continue                     # nothing to tell it apart from the existing ones
        for _try in range(20):
            atoms = {k: A.atom(sh["kinds"][k]) for k in sh["names"]}
            obj = rng.choice(OBJ_IDS) if sh["objs"] else 0
            if all(any(A.apart(atoms[k], o[2]["atoms"][k], lambda tn: R.cmp(s, tn)) for k in sh["names"]) or (obj and o[2]["obj"] and obj != o[2]["obj"]) for o in same):
                break
        else:
            continue
        ins = {k: A.spell(atoms[k], True) for k in sh["names"]}
        outs = {}
        for k in sh["onames"]:
            if sh["otys"][k] == "raw":
                outs[k] = {"ty": "raw", "data": [rng.randrange(256) for _ in range(rng.choice([0, 1, 2, 4, 8]))]}
            else:
                outs[k] = {"ty": sh["otys"][k], "data": [rng.randrange(1, 200), 0, 0, 0]}
        ret = {"t": "none"}
        if rng.random() < 0.5:
            ra = A.atom(rng.choice(["int", "int", "str", "bool", "ptr", "cptr", "fptr", "dbl"]) if typed else "int")
            ret = A.spell(ra, False)
        e = {"fn": fn, "obj": obj, "ins": ins, "outs": outs, "ign": rng.random() < 0.2, "n": rng.choice([1, 1, 1, 2, 3, 0]), "ret": ret}
        exps.append((s, e, {"atoms": atoms, "obj": obj}))
    for s, e, _ in exps:
        order = list(e["ins"]); rng.shuffle(order)
        lines.append(expect_line(s, e, order))
    if typed and rng.random() < 0.15:
        # a later installation: the expectations keep the functions they have bound
        lines.append(["installcmp", rng.choice(scopes), rng.choice(A.types), rng.choice(CMP_MODES)])
    if typed and rng.random() < 0.3:
        lines.extend(data_lines(rng, scopes))
    # the calls that would fulfil everything
    calls = []
    for s, e, meta in exps:
        for _ in range(e["n"]):
            calls.append([s, e, meta])
    if not any(strict.values()) or rng.random() < 0.3:
        rng.shuffle(calls)
    elif rng.random() < 0.3 and len(calls) > 1:
        i = rng.randrange(len(calls) - 1)
        calls[i], calls[i + 1] = calls[i + 1], calls[i]
    calls = calls[:max_calls]
    # deviations
    dev = rng.random()
    if dev < 0.12 and calls:
        calls.pop(rng.randrange(len(calls)))                    # a call that never comes
    elif dev < 0.24 and calls:
        calls.insert(rng.randrange(len(calls) + 1), list(rng.choice(calls)))   # a surplus call
    elif dev < 0.30:
        calls.insert(rng.randrange(len(calls) + 1), [rng.choice(scopes), None, None])   # a call to a function nobody expects
    mutate_at = rng.randrange(len(calls)) if calls and 0.30 <= dev < 0.62 else -1
    # a call left in progress: the LAST call of one scope lacks a parameter / its object and nothing reads its return value, so it is
    # still open - beside the other scopes' last calls, finished or not - when a verdict step (expectedCallsLeft, checkExpectations,
    # the end of the test) has to complete it
    stuck_at = -1
    if calls and 0.62 <= dev < 0.74:
        s_ = rng.choice(sorted({c[0] for c in calls}))
        stuck_at = max(i for i, c in enumerate(calls) if c[0] == s_)
    pending = []
    for ci, (s, e, meta) in enumerate(calls):
        if e is None:
            lines.append(["begin", s, "nobody"])
            if rng.random() < 0.5:
                lines.append(["param", s, "p", enc(mk_int("int", 1))])
            continue
        lines.append(["begin", s, e["fn"]])
        subs = []
        for k, v in e["ins"].items():
            a = meta["atoms"][k]
            av = double_within(rng, v, odd_tolerances) if a[0] == "dbl" else (obj_within(rng, v, R.cmp(s, v["tn"])) if a[0] == "obj" else A.spell(a, False))
            subs.append(["param", s, k, enc(av)])
        for k, o in e["outs"].items():
            subs.append(["outparam", s, k, o["ty"]])
        if e["obj"] or (not c_compatible and rng.random() < 0.1):
            subs.append(["object", s, e["obj"] or rng.choice(OBJ_IDS)])
        if e["ign"] and rng.random() < 0.6:
            subs.append(["param", s, "extra", enc(mk_int("int", rng.randrange(3)))])
        rng.shuffle(subs)
        if ci == mutate_at and subs:
            j = rng.randrange(len(subs))
            kind = rng.random()
            if kind < 0.3:
                subs.pop(j)                                                    # missing parameter / object
            elif kind < 0.6 and subs[j][0] == "param" and subs[j][2] in meta["atoms"]:
                subs[j] = ["param", s, subs[j][2], enc(A.spell(A.other(meta["atoms"][subs[j][2]]), False))]   # wrong value
            elif kind < 0.75:
                subs.insert(j, ["param", s, "zz", enc(mk_int("int", 1))])      # unknown parameter name
            elif kind < 0.85 and subs[j][0] == "object":
                subs[j] = ["object", s, other_object(subs[j][2])]              # another object
            elif kind < 0.93 and subs[j][0] == "outparam":
                subs[j] = ["outparam", s, subs[j][2], A.types[1] if typed else "raw"]   # another output type
            else:
                subs.insert(j, ["outparam", s, "w", "raw"])                    # unknown output parameter
        if ci == stuck_at:
            need = [j for j, x in enumerate(subs) if (x[0] == "param" and x[2] in e["ins"]) or x[0] == "outparam" or (x[0] == "object" and e["obj"])]
            if need:
                subs.pop(rng.choice(need))
            lines.extend(subs)
            continue
        lines.extend(subs)
        r = rng.random()
        if r < 0.45:
            lines.append(["ret", s, "value", "support"])
        elif r < 0.5:
            lines.append(["left"])
    if rng.random() < 0.85:
        lines.append(["check"])
    lines.append(["end"])
    return lines
